---------------------------- MODULE SilkIdxTrace ----------------------------
(***************************************************************************)
(* Binding of module SilkIdx to libopus.  Stateless: one initial state per  *)
(* line of IOEnv.TRACE (NDJSON).                                            *)
(*                                                                         *)
(*  PlanOut  (cfg SilkIdxPlan.cfg)   the lines are REQUESTS (frame          *)
(*           parameters + abstract symbol stream); TLC evaluates the model   *)
(*           and prints the plan: the ops to write, in the model's order and *)
(*           from the model's tables.  harness/silkidx.c writes them with    *)
(*           the library's range encoder.                                    *)
(*  Judge    (cfg SilkIdxTrace.cfg)  the lines are EVENTS recorded by the    *)
(*           harness: what the REAL silk_decode_indices + silk_decode_pulses *)
(*           made of the planned bytes, and what the REAL                    *)
(*           silk_encode_indices + silk_encode_pulses (then the real decoder *)
(*           again) made of the decoded record.  TLC recomputes the model    *)
(*           from the request echoed in the event and judges every group of  *)
(*           clauses; a rejected event is printed with the groups it breaks: *)
(*             "REJ <<id, writer, modelDec, domain, lock, modelEnc>>"        *)
(*           Events "pk" are real speech-mode packets of opus_encode: the    *)
(*           model parses them from the BYTES with the full-width range      *)
(*           decoder (RangeDec32): "PKREJ <<id, packet, lock-step, model>>", *)
(*           "PKSKIP" (not a speech-only code-0 packet, or a redundant MDCT  *)
(*           frame follows), "PKLBRR <<id, packet, LBRR frames parsed>>"     *)
(***************************************************************************)
EXTENDS SilkIdx, TLC
VARIABLE l

Tr == ndJsonDeserialize(IOEnv.TRACE)

RqOf(e) == [fs |-> e.fs, nb |-> e.nb, fi |-> e.fi, lbrr |-> e.lb, cond |-> e.cc, vad |-> e.vad, prevSig |-> e.ps, prevLag |-> e.pl,
            vals |-> e.vals, pm |-> 0, pol |-> 0]

-----------------------------------------------------------------------------
\* ops as pairs <<table reference, symbol>>; the sign ops are numbered 32000 + k
PairOf(op) == IF op[1] = 8 THEN <<1000 * X_SIGN + op[3], op[4]>> ELSE <<op[3], op[4]>>
FlatPairs(ops) == [j \in 1..(2 * Len(ops)) |-> PairOf(ops[(j + 1) \div 2])[2 - (j % 2)]]
PlanOf(e) ==
  LET r == SxDecFrame(RqOf(e)) IN
  "PLAN F " \o ToString(e.id) \o " | " \o ToString(r.nidx) \o " | " \o ToString(FlatPairs(r.ops)) \o " | " \o ToString(r.dl)
PlanOut == PrintT(PlanOf(Tr[l]))
\* the tables, as the model states them (printed once, by the first case)
TablesOut == l = 1 => \A t \in 1..NTables : PrintT("TABLE " \o ToString(t) \o " " \o ToString(TB[t]))

-----------------------------------------------------------------------------
Halves(c) == R!RngHalves(c.rm)
\* the side information the real decoder returned (fields prefixed p)
RecOf(e, p) ==
  IF p = "" THEN [sig |-> e.sig, qoff |-> e.qo, g |-> e.g, nl |-> e.nl, interp |-> e.ic, lag |-> e.lag, cont |-> e.ct, per |-> e.per,
                  ltp |-> e.ltp, scale |-> e.ls, seed |-> e.sd]
  ELSE [sig |-> e.tsig, qoff |-> e.tqo, g |-> e.tg, nl |-> e.tnl, interp |-> e.tic, lag |-> e.tlag, cont |-> e.tct, per |-> e.tper,
        ltp |-> e.tltp, scale |-> e.tls, seed |-> e.tsd]

\* what was executed is the model's plan: the library's range ENCODER, writing the planned ops, is where the model's
\* counter says, and the range decoder primitive reads every op back
WriterOK(e, D) ==
  /\ e.we = 0 /\ e.sm = 0 /\ e.nidx = D.nidx /\ e.nops = Len(D.ops)
  /\ <<e.wih, e.wil>> = Halves(D.ci) /\ e.wti = Tell(D.ci)
  /\ <<e.wfh, e.wfl>> = Halves(D.c) /\ e.wtf = Tell(D.c) /\ e.wff = TellFrac(D.c)
  /\ <<e.sfh, e.sfl>> = Halves(D.c)
\* the REAL decoder functions read exactly the model's symbols: same range and bit count after the side information and
\* after the excitation, same side information, same excitation, same memory for the next frame
ModelDecOK(e, D) ==
  /\ RecOf(e, "") = D.idx
  /\ <<e.dih, e.dil>> = Halves(D.ci) /\ e.dti = Tell(D.ci)
  /\ <<e.dfh, e.dfl>> = Halves(D.c) /\ e.dtf = Tell(D.c) /\ e.dff = TellFrac(D.c)
  /\ e.pu = D.pul
  /\ e.nps = D.ps /\ e.npl = D.pl
  /\ e.flen = SxFrameLen(e.fs, e.nb) /\ e.lpc = SxOrder(e.fs)
\* C18: the indices the bitstream carried lie in the domains the dequantisers are checked on
DomainOK(e) == LET rq == RqOf(e)  x == RecOf(e, "") IN SxIdxDomainOK(rq, x, e.pl) /\ TypeVsVad(rq, x)
\* C02 at the level of this layer: what the REAL encoder functions write for the decoded record, the REAL decoder
\* functions read in lock-step (same range and bit count after each stage) and to the same record and excitation (C18:
\* "quantising on the encoder side and dequantising gives the values the decoder will reconstruct")
LockOK(e) ==
  e.tw = 1 =>
    /\ e.ee = 0
    /\ <<e.eih, e.eil, e.eti>> = <<e.tih, e.til, e.tti>>
    /\ <<e.efh, e.efl, e.etf>> = <<e.tfh, e.tfl, e.ttf>>
    /\ RecOf(e, "t") = RecOf(e, "") /\ e.td = e.pd
    /\ e.eps = e.tps /\ e.epl = e.tpl
\* the REAL encoder functions wrote the symbols of the model's encoder order (rate level: the encoder's free choice,
\* read back from its first excitation symbol)
ModelEncOK(e) ==
  e.tw = 1 =>
    LET E == SxEncFrame(RqOf(e), RecOf(e, ""), e.pu, e.erl) IN
    /\ e.erl \in 0..(N_RATE - 2)
    \* (a record outside the encoder's input domain is not given to the model's encoder: the clause fails instead)
    /\ SxEncWantOK(RqOf(e), RecOf(e, "")) /\ Len(e.pu) = SHELL * SxNBlocks(SxFrameLen(e.fs, e.nb)) /\ \A k \in 1..Len(e.pu) : e.pu[k] \in (0 - 127)..127
    /\ <<e.eih, e.eil>> = Halves(E.ci) /\ e.eti = Tell(E.ci)
    /\ <<e.efh, e.efl>> = Halves(E.c) /\ e.etf = Tell(E.c) /\ e.eff = TellFrac(E.c)
    /\ e.eps = E.ps /\ e.epl = E.pl

FrVerdict(e) == LET D == SxDecFrame(RqOf(e)) IN <<WriterOK(e, D), ModelDecOK(e, D), DomainOK(e), LockOK(e), ModelEncOK(e)>>

-----------------------------------------------------------------------------
(* Whole codec: a speech-mode packet of the real encoder (mono or stereo, 10 - 60 ms, no LBRR) parsed from its BYTES.   *)
(* The packet header is module FrameHdr's order (VAD flags, LBRR flag per channel; per frame the stereo weights and the  *)
(* mid-only flag; conditional coding), the frames are this module's, every symbol is DECODED with RangeDec32 - the model  *)
(* must end exactly at the final range the encoder and the decoder report.                                              *)

PkBits(buf, st0, k) ==         \* k one-bit symbols (logp 1): <<state, bits>>
  LET RECURSIVE Go(_, _, _)
      Go(st, j, acc) == IF j = 0 THEN <<st, acc>>
                        ELSE LET r == R!BitLogp(buf, st.d, 1)  iv == BitIv(1, r[2]) IN
                             Go([d |-> r[1], c |-> RcSym(st.c, iv[1], iv[2], iv[3])], j - 1, Append(acc, r[2]))
  IN Go(st0, k, <<>>)
PkTbl(buf, st, tid) ==           \* one symbol of a packet-header table of module FrameHdr: <<state, symbol>>
  LET r == R!Icdf(buf, st.d, TblById[tid], 8)  iv == IcdfIv(tid, 8, r[2]) IN <<[d |-> r[1], c |-> RcSym(st.c, iv[1], iv[2], iv[3])], r[2]>>
PkPred(buf, st) ==               \* silk_stereo_decode_pred: five symbols
  LET a == PkTbl(buf, st, T_JOINT)  b == PkTbl(buf, a[1], T_UNI3)  c == PkTbl(buf, b[1], T_UNI5)
      d == PkTbl(buf, c[1], T_UNI3)  f == PkTbl(buf, d[1], T_UNI5) IN f[1]
PkHdr(e) ==
  LET toc == e.b[1]  cfgno == toc \div 8  ms == <<10, 20, 40, 60>>[(cfgno % 4) + 1] IN
  [fs |-> IF cfgno < 4 THEN 8 ELSE IF cfgno < 8 THEN 12 ELSE 16, ms |-> ms, nch |-> IF (toc \div 4) % 2 = 1 THEN 2 ELSE 1, code |-> toc % 4,
   nf |-> IF ms <= 20 THEN 1 ELSE ms \div 20, nb |-> IF ms = 10 THEN 2 ELSE 4, speech |-> cfgno < 12]
\* the frames of the packet, in order: per frame (stereo) weights, mid-only flag when the side has no activity, mid, side
RECURSIVE PkFrames(_, _, _, _, _, _)
PkFrames(buf, h, fl, st, i, mem) ==      \* fl = <<vad flags per channel>>; mem = [ps, pl (per channel), pdom, n (frames read)]
  IF i >= h.nf THEN <<st, mem>>
  ELSE LET s1 == IF h.nch = 2 THEN PkPred(buf, st) ELSE st
           mo == IF h.nch = 2 /\ fl[2][i + 1] = 0 THEN PkTbl(buf, s1, T_MIDONLY) ELSE <<s1, 0>>
           Rq(n, cond) == [fs |-> h.fs, nb |-> h.nb, fi |-> i, lbrr |-> 0, cond |-> cond, vad |-> fl[n][i + 1], prevSig |-> mem.ps[n], prevLag |-> mem.pl[n],
                           vals |-> <<>>, pm |-> 2, pol |-> 0, buf |-> buf]
           m == SxDecFrameAt(Rq(1, IF i = 0 THEN CODE_INDEPENDENTLY ELSE CODE_CONDITIONALLY), mo[1].c, mo[1].d)
           side == h.nch = 2 /\ mo[2] = 0
           s == IF side THEN SxDecFrameAt(Rq(2, IF i = 0 THEN CODE_INDEPENDENTLY ELSE IF mem.pdom = 1 THEN CODE_INDEPENDENTLY_NO_LTP_SCALING ELSE CODE_CONDITIONALLY), m.c, m.d)
                ELSE m IN
       PkFrames(buf, h, fl, [d |-> s.d, c |-> s.c], i + 1,
                [ps |-> <<m.ps, IF side THEN s.ps ELSE mem.ps[2]>>, pl |-> <<m.pl, IF side THEN s.pl ELSE mem.pl[2]>>, pdom |-> mo[2],
                 n |-> mem.n + (IF side THEN 2 ELSE 1)])
\* per-frame LBRR flags of a channel whose LBRR flag is set: one frame - that frame; else a symbol (value+1 = bit set)
PkLbrrSym(buf, h, st, flag) ==
  IF flag = 0 THEN <<st, <<0, 0, 0>>>>
  ELSE IF h.nf = 1 THEN <<st, <<1, 0, 0>>>>
  ELSE LET r == PkTbl(buf, st, IF h.nf = 2 THEN T_LBRR2 ELSE T_LBRR3) IN
       <<r[1], [j \in 1..3 |-> IF j <= h.nf THEN ((r[2] + 1) \div P2(j - 1)) % 2 ELSE 0]>>
\* the LBRR frames come before the regular frames: frame by frame, mid before side, each coded conditionally iff the same
\* channel had an LBRR frame just before (silk_Decode, the loop that skips them; FrameHdr!SkipLbrr)
RECURSIVE PkLbrrFrames(_, _, _, _, _, _, _)
PkLbrrFrames(buf, h, lb, st, i, n, mem) ==
  IF i >= h.nf THEN <<st, mem>>
  ELSE IF n > h.nch THEN PkLbrrFrames(buf, h, lb, st, i + 1, 1, mem)
  ELSE IF lb[n][i + 1] = 0 THEN PkLbrrFrames(buf, h, lb, st, i, n + 1, mem)
  ELSE LET s1 == IF h.nch = 2 /\ n = 1
                 THEN LET p == PkPred(buf, st) IN IF lb[2][i + 1] = 0 THEN PkTbl(buf, p, T_MIDONLY)[1] ELSE p
                 ELSE st
           cond == IF i > 0 /\ lb[n][i] = 1 THEN CODE_CONDITIONALLY ELSE CODE_INDEPENDENTLY
           f == SxDecFrameAt([fs |-> h.fs, nb |-> h.nb, fi |-> i, lbrr |-> 1, cond |-> cond, vad |-> 0, prevSig |-> mem.ps[n], prevLag |-> mem.pl[n],
                              vals |-> <<>>, pm |-> 2, pol |-> 0, buf |-> buf], s1.c, s1.d) IN
       PkLbrrFrames(buf, h, lb, [d |-> f.d, c |-> f.c], i, n + 1,
                    [mem EXCEPT !.ps[n] = f.ps, !.pl[n] = f.pl, !.n = @ + 1])
\* <<judged, lock-step, model, number of LBRR frames>>
PkVerdict(e) ==
  LET h == PkHdr(e)
      buf == SubSeq(e.b, 2, e.n)
      lock == e.er = e.n /\ e.dr = e.frame /\ <<e.eh, e.el>> = <<e.rh, e.rl>> IN
  IF e.n < 2 \/ ~h.speech \/ h.code # 0 THEN <<FALSE, lock, TRUE, 0>>
  ELSE LET s0 == [d |-> R!Init(buf, e.n - 1), c |-> RcInit]
           f1 == PkBits(buf, s0, h.nf + 1)
           f2 == IF h.nch = 2 THEN PkBits(buf, f1[1], h.nf + 1) ELSE <<f1[1], <<0, 0, 0, 0>>>>
           l1 == PkLbrrSym(buf, h, f2[1], f1[2][h.nf + 1])
           l2 == IF h.nch = 2 THEN PkLbrrSym(buf, h, l1[1], f2[2][h.nf + 1]) ELSE <<l1[1], <<0, 0, 0>>>>
           mem0 == [ps |-> <<0, 0>>, pl |-> <<0, 0>>, pdom |-> 0, n |-> 0]
           lf == PkLbrrFrames(buf, h, <<l1[2], l2[2]>>, l2[1], 0, 1, mem0)
           r == PkFrames(buf, h, <<f1[2], f2[2]>>, lf[1], 0, [lf[2] EXCEPT !.n = 0])
           st == r[1] IN
       \* opus_decode_frame: 17 or more bits left after the speech frames of a speech-only packet = a redundant MDCT frame follows
       \* (the encoder adds one when the speech layer switches bandwidth); its range is outside this module: not judged
       IF Tell(st.c) + 17 <= 8 * (e.n - 1) THEN <<FALSE, lock, TRUE, lf[2].n>> ELSE
       <<TRUE, lock,
         /\ <<e.eh, e.el>> = R!RngHalves(st.d.rm) /\ st.c.rm = st.d.rm /\ st.c.nbits = st.d.nbits
         \* (the bit count may pass the end of the packet: the encoder strips trailing zero bytes of a speech-only packet)
         /\ e.frame = (e.fsr \div 1000) * h.ms,
         lf[2].n>>

FrVerdictOK(v) == v = <<TRUE, TRUE, TRUE, TRUE, TRUE>>
Judge == LET e == Tr[l] IN
  CASE e.k = "fr" -> LET v == FrVerdict(e) IN FrVerdictOK(v) \/ PrintT("REJ " \o ToString(<<e.id>> \o v))
    [] e.k = "pk" -> LET v == PkVerdict(e) IN
                     /\ (v[1] \/ PrintT("PKSKIP " \o ToString(<<e.id, e.f>>)))
                     /\ ((v[2] /\ v[3]) \/ PrintT("PKREJ " \o ToString(<<e.id, e.f, v[2], v[3]>>)))
                     /\ (v[4] = 0 \/ PrintT("PKLBRR " \o ToString(<<e.id, e.f, v[4]>>)))
    [] e.k = "bad" -> PrintT("BAD " \o ToString(l))
    [] OTHER -> TRUE
\* a strict version for single events (replay): the invariant itself fails
CaseOK == LET e == Tr[l] IN e.k = "fr" => FrVerdictOK(FrVerdict(e))
\* diagnosis
Dbg == LET e == Tr[l] IN
  e.k = "fr" => LET D == SxDecFrame(RqOf(e)) IN
     PrintT("DBG " \o ToString(<<e.id, FrVerdict(e)>>) \o " idx " \o ToString(D.idx) \o " ci " \o ToString(<<Halves(D.ci), Tell(D.ci)>>)
            \o " c " \o ToString(<<Halves(D.c), Tell(D.c), TellFrac(D.c)>>) \o " nidx " \o ToString(D.nidx) \o " nops " \o ToString(Len(D.ops))
            \o " ps/pl " \o ToString(<<D.ps, D.pl>>) \o " sums " \o ToString(D.sums) \o " nls " \o ToString(D.nls) \o " dl " \o ToString(D.dl))

Init == l \in 1..Len(Tr)
Next == UNCHANGED l
Spec == Init /\ [][Next]_l
=============================================================================
