----------------------------- MODULE SilkIdx_mc -----------------------------
(***************************************************************************)
(* Exhaustive evaluation of the SilkIdx design theorems.                   *)
(*                                                                         *)
(* One variable st; several systems chosen by INIT/NEXT in the cfg:         *)
(*  InitI/NextI  side information: every (fs, nb, lbrr, cond, vad,          *)
(*               prevSig, prevLag) x every stream POLICY (which signal type, *)
(*               stage-1 vector, stage-2 pattern incl. both extensions, lag  *)
(*               delta / escape, periodicity index, ends of the alphabets    *)
(*               of the symbols that steer nothing)                         *)
(*  InitP/NextP  whole frames: excitation policies (rate level, pulse       *)
(*               counts incl. escape chains of every length 0..10, final     *)
(*               count, split and LSB / sign patterns) over a parameter      *)
(*               sub-grid                                                    *)
(*  InitE/NextE  encoder side: every record of a grid an encoder can want   *)
(*               x excitation families, mirrored through the decoder; the   *)
(*               encoder's scaling of single blocks                          *)
(*  InitL/NextL  the lag index over a packet of up to three frames, against  *)
(*               the domain module SilkParams (C18) checks the pitch lags on *)
(* The theorems are evaluated inside invariants (TLC caches LET values       *)
(* there); a failing conjunct is named by a "FAILED <name>" line.            *)
(* Leaves of NextP are printed as REQ lines when Gen is TRUE: they are       *)
(* replayed through libopus by the check (behaviour generation).             *)
(***************************************************************************)
EXTENDS SilkIdx, TLC

CONSTANTS KHzSet, NbSet,
          Deep,          \* fuller policy sets
          Gen            \* print the leaves

VARIABLE st

SP == INSTANCE SilkParams

Root == [k |-> "root"]
Chk(name, cond) == cond \/ (PrintT("FAILED " \o name) /\ FALSE)
Pol0 == [type |-> 0, cb1 |-> 0, nlsf |-> 0, lag |-> 0, per |-> 0, ext |-> 0, rl |-> 0, blk |-> 0, chain |-> 0, fin |-> 0, sh |-> 0, bit |-> 0]
MkRq(fs, nb, fi, lbrr, cond, vad, ps, pl, pol) ==
  [fs |-> fs, nb |-> nb, fi |-> fi, lbrr |-> lbrr, cond |-> cond, vad |-> vad, prevSig |-> ps, prevLag |-> pl, vals |-> <<>>, pm |-> 1, pol |-> pol]

-----------------------------------------------------------------------------
(* constants and tables: checked once, at the root *)
InvTables == st.k = "root" =>
  /\ (SxConstOK \/ PrintT("CONSTDIFF"))           \* reported as drift; the exploration goes on with the model's constants
  /\ Chk("WholeTablesOK", WholeTablesOK)
  /\ (TablesDiffer = {} \/ PrintT("TABLEDIFF " \o ToString(TablesDiffer)))
  \* cross-module: the constants module SilkParams (C18) assumes
  /\ Chk("CrossConst", /\ \A fs \in {8, 12, 16} : SxMaxAbsLag(fs) = SP!MaxAbsLagIndex(fs)
                       /\ \A fs \in {8, 12, 16}, nb \in {2, 4} : SxNCont(fs, nb) = SP!NContours(fs, nb)
                       /\ SP!LagDeltaSet = (0 - 8)..11 /\ SP!ResMax = NLSF_AMP + 6 /\ SP!NLevels = 64 /\ SP!NDelta = 41)

-----------------------------------------------------------------------------
(* side information *)
PrevLags(fs) == IF Deep THEN {0 - 3, 5, 8 * fs, 16 * fs - 3, 16 * fs + 9} ELSE {5, 16 * fs - 3}
InitI == st = Root
NextI ==
  \/ st.k = "root" /\ \E fs \in KHzSet, nb \in NbSet, lbrr \in 0..1, cond \in 0..2, vad \in 0..1, ps \in (IF Deep THEN 0..2 ELSE {0, 2}) :
        st' = [k |-> "par", fs |-> fs, nb |-> nb, lbrr |-> lbrr, cond |-> cond, vad |-> vad, ps |-> ps]
  \/ st.k = "par" /\ \E type \in 0..3, cb1 \in (IF Deep THEN {0, 17, 31} ELSE {0, 31}), nlsf \in 0..3, ext \in (IF Deep THEN 0..2 ELSE 0..1) :
        /\ (st.lbrr = 0 /\ st.vad = 0) => type < 2
        /\ LET voiced == (st.lbrr = 1 \/ st.vad = 1) /\ type >= 2 IN
           \E lag \in (IF voiced THEN 0..3 ELSE {0}), per \in (IF voiced THEN 0..2 ELSE {0}),
              pl \in (IF voiced /\ st.cond = CODE_CONDITIONALLY /\ st.ps = TYPE_VOICED THEN PrevLags(st.fs) ELSE {5}) :
              st' = [k |-> "idx", rq |-> MkRq(st.fs, st.nb, 0, st.lbrr, st.cond, st.vad, st.ps, pl,
                                             [Pol0 EXCEPT !.type = type, !.cb1 = cb1, !.nlsf = nlsf, !.ext = ext, !.lag = lag, !.per = per])]
InvIdx == st.k = "idx" =>
  LET rq == st.rq
      D == SxDecIdxOnly(rq) IN
  /\ Chk("AllTablesOK", AllTablesOK(D)) /\ Chk("OffsetsOK", OffsetsOK(D))
  /\ Chk("IdxDomainOK", SxIdxDomainOK(rq, D.idx, rq.prevLag)) /\ Chk("TypeVsVad", TypeVsVad(rq, D.idx))
  /\ Chk("LagCodingOK", LagCodingOK(D)) /\ Chk("HistoryFree", HistoryFree(rq))
  /\ Chk("IdxMirrorOK", IdxMirrorOK(rq))
  \* the policy stream and the explicit stream of its values are the same stream
  /\ Chk("StreamSame", LET E == SxDecIdxOnly([rq EXCEPT !.pm = 0, !.vals = SxValues(D.ops)]) IN E.ops = D.ops /\ E.idx = D.idx /\ E.c = D.c)
  \* the counter of the machine is the counter of its op list, and agrees with the range decoder's own bit count
  /\ Chk("TellAgrees", TellAgrees(D.c))
  \* cross-module (C18): gains, stage-2 residuals inside the domains SilkParams dequantises
  /\ Chk("CrossDomains", /\ SP!GainIndexOK(D.idx.g[1], rq.cond = CODE_CONDITIONALLY) /\ \A k \in 2..rq.nb : SP!GainIndexOK(D.idx.g[k], TRUE)
                         /\ \A k \in 2..Len(D.idx.nl) : D.idx.nl[k] \in (0 - SP!ResMax)..SP!ResMax)
\* the branches the grid reaches (vacuity guard: the check demands every tag)
TagsI == (st.k = "idx" /\ st.rq.pol.cb1 = 0 /\ st.rq.pol.ext = 0) => PrintT("TAGS " \o ToString(SxDecIdxOnly(st.rq).dl))

-----------------------------------------------------------------------------
(* whole frames: the excitation stage *)
InitP == st = Root
NextP ==
  \/ st.k = "root" /\ \E fs \in KHzSet, nb \in NbSet, type \in 0..3, rl \in (IF Deep THEN {0, 3, 5, 8} ELSE {0, 8}) :
        st' = [k |-> "ppar", fs |-> fs, nb |-> nb, type |-> type, rl |-> rl]
  \/ st.k = "ppar" /\ \E blk \in 0..4, sh \in (IF Deep THEN 0..2 ELSE {0, 2}), bit \in (IF Deep THEN 0..2 ELSE {0, 2}) :
        \E chain \in (IF blk \notin {2, 3} THEN {0} ELSE IF Deep THEN (IF blk = 2 THEN {0, 1, 2, 5, 9, MAX_LSB} ELSE {0, 2, 4, 6, 8, MAX_LSB}) ELSE IF blk = 2 THEN {0, 1, MAX_LSB} ELSE {0, 3, 7}),
           fin \in (IF blk \in {2, 3, 4} THEN (IF Deep THEN {0, 1, 7, MAX_PULSES} ELSE {0, 5, MAX_PULSES}) ELSE {0}) :
           st' = [k |-> "fr", rq |-> MkRq(st.fs, st.nb, 0, 0, 0, 1, 0, 0,
                                          [Pol0 EXCEPT !.type = st.type, !.rl = st.rl, !.blk = blk, !.sh = sh, !.bit = bit, !.chain = chain, !.fin = fin, !.nlsf = 3, !.ext = 2])]
InvFrame == st.k = "fr" =>
  LET rq == st.rq
      D == SxDecFrame(rq) IN
  /\ Chk("AllTablesOK", AllTablesOK(D)) /\ Chk("OffsetsOK", OffsetsOK(D))
  /\ Chk("PulsesShapeOK", PulsesShapeOK(D)) /\ Chk("PulsesOpCountOK", PulsesOpCountOK(D))
  /\ Chk("FrameMirrorOK", FrameMirrorOfOK(rq, D))
  /\ Chk("TellAgrees", TellAgrees(D.c) /\ TellAgrees(D.ci))
  /\ (~Gen \/ PrintT("REQ F " \o ToString(<<rq.fs, rq.nb, rq.fi, rq.lbrr, rq.cond, rq.vad, rq.prevSig, rq.prevLag>>) \o " " \o ToString(SxValues(D.ops))))
  /\ PrintT("TAGS " \o ToString(D.dl))

-----------------------------------------------------------------------------
(* encoder side *)
\* records: the ends of every index domain, each lag situation
RecOfGrid(rq, sig, g1, rr, per, lag) ==
  [sig |-> sig, qoff |-> g1 % 2, g |-> [k \in 1..rq.nb |-> IF k = 1 THEN (IF g1 = 0 THEN 0 ELSE IF rq.cond = CODE_CONDITIONALLY THEN 40 ELSE 63) ELSE 40 - g1],
   nl |-> <<31 * g1>> \o [k \in 1..SxOrder(rq.fs) |-> (<< <<0 - 10, 10, 0>>, <<0 - 4, 4, 1>>, <<3, 0 - 3, 0 - 9>> >>[rr])[(k % 3) + 1]],
   interp |-> IF rq.nb = 4 THEN 3 * g1 ELSE 4, lag |-> lag, cont |-> IF sig = TYPE_VOICED THEN (SxNCont(rq.fs, rq.nb) - 1) * g1 ELSE 0,
   per |-> per, ltp |-> [k \in 1..rq.nb |-> IF sig = TYPE_VOICED THEN (8 * P2(per) - 1) * ((k + g1) % 2) ELSE 0],
   scale |-> IF sig = TYPE_VOICED /\ rq.cond = CODE_INDEPENDENTLY THEN 2 * g1 ELSE 0, seed |-> 3 - g1]
Recs(rq) ==
  {RecOfGrid(rq, sig, g1, rr, 0, 0) : sig \in 0..1, g1 \in 0..1, rr \in 1..3}
  \cup {RecOfGrid(rq, TYPE_VOICED, g1, rr, per, lag) : g1 \in 0..1, rr \in 1..3, per \in 0..2,
          lag \in {0, SxMaxAbsLag(rq.fs), rq.prevLag - 8, rq.prevLag - 9, rq.prevLag + 11, rq.prevLag + 12}}
\* excitation families for a frame of n samples
Excs(n) ==
  {[k \in 1..n |-> 0]}
  \cup {[k \in 1..n |-> IF k % 16 = pos THEN v ELSE 0] : pos \in {1, 8}, v \in {1, 0 - 8, 9, 17, 0 - 127}}
  \cup {[k \in 1..n |-> IF (k \div 16) % 2 = 0 THEN v ELSE 0 - 1] : v \in {1, 2, 127}}
  \cup {[k \in 1..n |-> ((k * 7) % 23) - 11]}
InitE == st = Root
NextE ==
  \/ st.k = "root" /\ \E fs \in KHzSet, nb \in NbSet, lbrr \in 0..1, cond \in 0..2, ps \in {0, 2}, vad \in 0..1 :
        st' = [k |-> "epar", rq |-> MkRq(fs, nb, 1, lbrr, cond, vad, ps, 20, Pol0)]
  \/ st.k = "epar" /\ \E x \in Recs(st.rq) : st' = [k |-> "enc", rq |-> st.rq, x |-> x]
  \/ st.k = "root" /\ \E fs \in KHzSet, nb \in NbSet, sig \in 0..2, qoff \in 0..1 :
        st' = [k |-> "xpar", rq |-> MkRq(fs, nb, 0, 0, 0, 1, 0, 0, Pol0), sig |-> sig, qoff |-> qoff]
  \/ st.k = "xpar" /\ \E q \in Excs(SHELL * SxNBlocks(SxFrameLen(st.rq.fs, st.rq.nb))), rl \in {0, 4, 8} :
        st' = [k |-> "pex", rq |-> st.rq, sig |-> st.sig, qoff |-> st.qoff, q |-> q, rl |-> rl]
  \* (Deep) every block whose first six samples are 0, 1 or 9 and whose other samples are all 0 or all 1
  \/ st.k = "root" /\ Deep /\ \E f \in [1..6 -> {0, 1, 9}], t \in 0..1 : st' = [k |-> "blk", a |-> [k \in 1..16 |-> IF k <= 6 THEN f[k] ELSE t]]
  \/ st.k = "root" /\ \E a \in 0..3, b \in 0..17, c \in {0, 1, 2, 9, 64, 127}, d \in {0, 3, 127} :
        st' = [k |-> "blk", a |-> [k \in 1..16 |-> IF k = 1 THEN b ELSE IF k = 2 THEN c ELSE IF k \in {3, 9} THEN d ELSE IF k % 4 = a THEN b ELSE 0]]
\* MIRROR encoder -> decoder, side information
InvEnc == st.k = "enc" =>
  LET rq == st.rq  x == st.x IN
  SxEncWantOK(rq, x) =>
     LET e == SxEncIdxOnly(rq, x)
         d == SxDecIdxOnly([rq EXCEPT !.pm = 0, !.vals = SxValues(e.ops)]) IN
     /\ Chk("IdxEncDec", d.ops = e.ops /\ d.c = e.c /\ d.idx = x /\ d.ps = e.ps /\ d.pl = e.pl)
     /\ Chk("EncTablesOK", AllTablesOK(e))
     /\ PrintT("TAGS " \o ToString(d.dl))
\* MIRROR encoder -> decoder, excitation
InvPex == st.k = "pex" =>
  LET rq == st.rq
      flen == SxFrameLen(rq.fs, rq.nb)
      q == [k \in 1..Len(st.q) |-> IF k > flen THEN 0 ELSE st.q[k]]
      s0 == [SxInit(rq) EXCEPT !.idx.sig = st.sig, !.idx.qoff = st.qoff]
      e == SxEncPulses(s0, st.sig, st.qoff, q, st.rl)
      d == SxDecPulses([s0 EXCEPT !.rq.pm = 0, !.rq.vals = SxValues(e.ops)]) IN
  /\ Chk("PulsesEncDec", d.ops = e.ops /\ d.c = e.c /\ d.pul = q)
  /\ Chk("PexTablesOK", AllTablesOK(e))
InvBlk == st.k = "blk" => Chk("EncShiftsSmall", EncShiftsSmall(st.a))
\* a decoder that kept the unshifted table after MAX_LSB escapes would not be mirrored by ... nothing: the encoder cannot
\* get there.  The witness that the mirror genuinely depends on the shifted table: with 10 escapes the encoder order of
\* EncCount (which never shifts) is NOT what the decoder reads - must be violated (vacuity guard, cfg SilkIdx_mc_witness)
WitnessChainMax == st.k = "fr" =>
  LET D == SxDecFrame(st.rq) IN
  (\E b \in 1..Len(D.nls) : D.nls[b] = MAX_LSB) =>
     LET e == EncBlocks([SxInit(st.rq) EXCEPT !.rl = D.rl], 1, [b \in 1..Len(D.nls) |-> <<D.nls[b], <<>>, D.sums[b]>>], D.pul, 1, <<0, 0>>)
         cnt == SelectSeq(D.ops, LAMBDA op : op[1] = 2 /\ op[3] \div 1000 = X_PPB) IN
     e.ops = cnt

-----------------------------------------------------------------------------
(* the lag index over a packet: first frame absolute, then absolute or delta; against SilkParams' domain *)
C18LagSlack == 40                 \* cfg/SilkLag_mc.cfg: LagSlack, the margin around 0..MaxAbsLagIndex over which C18 checks PitchLags
InitL == st = Root
NextL ==
  \/ st.k = "root" /\ \E fs \in KHzSet, lag \in {0, 1, 7} : st' = [k |-> "lagc", fs |-> fs, lag |-> IF lag = 7 THEN SxMaxAbsLag(fs) ELSE lag, frame |-> 1]
  \/ st.k = "lagc" /\ st.frame < SP!MaxFramesPerPacket
     /\ \E lp \in 0..3 :
          LET rq == MkRq(st.fs, 4, st.frame, 0, CODE_CONDITIONALLY, 1, TYPE_VOICED, st.lag, [Pol0 EXCEPT !.type = 2, !.lag = lp, !.ext = 1]) IN
          st' = [k |-> "lagc", fs |-> st.fs, lag |-> DecLag(SxInit(rq)).idx.lag, frame |-> st.frame + 1]
InvLagChain == st.k = "lagc" => Chk("LagInC18Domain", st.lag \in (0 - C18LagSlack)..(SP!MaxAbsLagIndex(st.fs) + C18LagSlack))

Spec == InitI /\ [][NextI]_st
=============================================================================
