---------------------------- MODULE SilkParams ----------------------------
(***************************************************************************)
(* SILK side-information dequantisation (RFC 6716 section 4.2.7.3-4.2.7.6): *)
(* sub-frame gains, pitch lags and contours, normalised LSFs.               *)
(*                                                                         *)
(* The dequantisers are normative, so this model is exact: integer          *)
(* arithmetic, every intermediate kept below 2^31 (TLC integers are 32-bit  *)
(* signed and overflow is fatal).  Arithmetic right shifts are floor        *)
(* divisions (TLA+ \div floors), C division is TruncDiv.                    *)
(*                                                                         *)
(* The *rules* (accumulation, clamps, which codebook for which frame        *)
(* type, predictor recursion, stabiliser) are written here from the RFC.    *)
(* The *table words* (pitch contour codebooks, the two NLSF codebooks with  *)
(* weights, predictors, selectors and minimum spacings, the cosine table)   *)
(* are read from a JSON file that the harness exports from the built        *)
(* library at check time (IOEnv.SILKTAB), so that a changed table word is   *)
(* judged on its merits by the invariants of SilkParams_mc.                 *)
(***************************************************************************)
EXTENDS Integers, Sequences, Json, IOUtils, TLC

Tab == ndJsonDeserialize(IOEnv.SILKTAB)[1]

-----------------------------------------------------------------------------
(* fixed-point helpers *)

Min2(a, b) == IF a < b THEN a ELSE b
Max2(a, b) == IF a > b THEN a ELSE b
Clamp(x, lo, hi) == IF x < lo THEN lo ELSE IF x > hi THEN hi ELSE x
\* silk_LIMIT: the two limits may come in either order
Limit(a, l1, l2) == IF l1 > l2 THEN (IF a > l1 THEN l1 ELSE IF a < l2 THEN l2 ELSE a)
                               ELSE (IF a > l2 THEN l2 ELSE IF a < l1 THEN l1 ELSE a)
Shr(x, n) == x \div (2 ^ n)                       \* arithmetic shift right
S16(x) == ((x + 32768) % 65536) - 32768          \* (opus_int16) cast
S8(x)  == ((x + 128) % 256) - 128                \* (opus_int8) cast
Sat16(x) == Clamp(x, -32768, 32767)
Abs(x) == IF x < 0 THEN -x ELSE x
TruncDiv(a, b) ==                                 \* C integer division
  LET q == Abs(a) \div Abs(b) IN IF (a < 0) = (b < 0) THEN q ELSE -q
\* silk_SMULWB(a32, b32) = (a32 * (int16)b32) >> 16, product split so that it stays below 2^31
SMULWB(a, b) ==
  LET bb == S16(b)  ah == a \div 65536  al == a % 65536 IN ah * bb + ((al * bb) \div 65536)
SMLAWB(acc, a, b) == acc + SMULWB(a, b)
SMULBB(a, b) == S16(a) * S16(b)
\* silk_RSHIFT_ROUND(a, s)
RShiftRound(a, s) == IF s = 1 THEN (a \div 2) + (a % 2) ELSE ((a \div (2 ^ (s - 1))) + 1) \div 2

\* TLC does not cache LET definitions while it evaluates an action; a value that is used several times is
\* therefore bound through a singleton set: Only({ F(x) : x \in {e} }) evaluates e once.
Only(S) == CHOOSE y \in S : TRUE

RECURSIVE SumTo(_, _, _)
SumTo(s, a, b) == IF a > b THEN 0 ELSE s[a] + SumTo(s, a + 1, b)

-----------------------------------------------------------------------------
(* Gains (RFC 6716 4.2.7.4).  64 log-domain levels; independent coding may  *)
(* not fall more than 16 below the previous level; delta index d in 0..40   *)
(* moves by d-4, or lands on 2d-16 when that is higher (double step).       *)

NLevels  == 64
MinDelta == -4
MaxDelta == 36
NDelta   == MaxDelta - MinDelta + 1      \* 41 delta indices
GainOffsetQ7   == 2090                   \* (2*128)/6 + 16*128
GainInvScaleQ16 == 1907825               \* 0x1D1C71
GainScaleQ16   == 2251

\* silk_log2lin
Log2Lin(x) ==
  IF x < 0 THEN 0
  ELSE IF x >= 3967 THEN 2147483647
  ELSE LET i == x \div 128
           f == x % 128
           out == 2 ^ i
           m == SMLAWB(f, f * (128 - f), -174)
       IN IF x < 2048 THEN out + ((out * m) \div 128)
                      ELSE out + (out \div 128) * m

GainOfLevel(p) == Log2Lin(Min2(SMULWB(GainInvScaleQ16, p) + GainOffsetQ7, 3967))

\* one sub-frame of the decoder: delta = TRUE when the index is a delta index
GainDequantStep(prev, ind, delta) ==
  LET raw == IF delta THEN Max2(2 * ind - 16, prev + ind + MinDelta)
                      ELSE Max2(ind, prev - 16)
      np == Clamp(raw, 0, NLevels - 1)
  IN [prev |-> np, gain |-> GainOfLevel(np)]

\* a frame: first sub-frame delta coded iff conditional, the others always
RECURSIVE GainDequantFrom(_, _, _, _, _)
GainDequantFrom(prev, inds, conditional, k, gains) ==
  IF k > Len(inds) THEN [prev |-> prev, gains |-> gains]
  ELSE LET s == GainDequantStep(prev, inds[k], (k > 1) \/ conditional)
       IN GainDequantFrom(s.prev, inds, conditional, k + 1, Append(gains, s.gain))
GainDequant(prev, inds, conditional) == GainDequantFrom(prev, inds, conditional, 1, <<>>)

\* silk_lin2log for x >= 1
FloorLog2(x) == CHOOSE p \in 0..30 : 2 ^ p <= x /\ (p = 30 \/ x < 2 ^ (p + 1))
Lin2Log(x) ==
  LET p == FloorLog2(x)
      frac == IF p >= 7 THEN (x \div (2 ^ (p - 7))) % 128 ELSE (x * (2 ^ (7 - p))) % 128
  IN SMLAWB(frac, frac * (128 - frac), 179) + p * 128

\* encoder side (not normative; a reference sub-model of silk_gains_quant)
RawLevel(x) == S8(SMULWB(GainScaleQ16, Lin2Log(x) - GainOffsetQ7))
GainQuantRawStep(prev, raw, delta) ==
  LET i0 == IF raw < prev THEN raw + 1 ELSE raw
      i1 == Clamp(i0, 0, NLevels - 1)
  IN IF ~delta
     THEN LET i2 == Limit(i1, prev + MinDelta, NLevels - 1)
          IN [ind |-> i2, prev |-> i2, gain |-> GainOfLevel(i2)]
     ELSE LET thr == 2 * MaxDelta - NLevels + prev
              d0 == i1 - prev
              d1 == IF d0 > thr THEN thr + Shr(d0 - thr + 1, 1) ELSE d0
              d2 == Clamp(d1, MinDelta, MaxDelta)
              np == IF d2 > thr THEN Min2(prev + 2 * d2 - thr, NLevels - 1) ELSE prev + d2
          IN [ind |-> d2 - MinDelta, prev |-> np, gain |-> GainOfLevel(np)]

RECURSIVE GainQuantFrom(_, _, _, _, _, _)
GainQuantFrom(prev, xs, conditional, k, inds, gains) ==
  IF k > Len(xs) THEN [prev |-> prev, inds |-> inds, gains |-> gains]
  ELSE LET s == GainQuantRawStep(prev, RawLevel(xs[k]), (k > 1) \/ conditional)
       IN GainQuantFrom(s.prev, xs, conditional, k + 1, Append(inds, s.ind), Append(gains, s.gain))
GainQuant(prev, xs, conditional) == GainQuantFrom(prev, xs, conditional, 1, <<>>, <<>>)

\* index domains a bitstream can carry
GainIndexOK(ind, delta) == IF delta THEN ind \in 0..(NDelta - 1) ELSE ind \in 0..(NLevels - 1)

-----------------------------------------------------------------------------
(* Pitch lags (RFC 6716 4.2.7.6.1): primary lag = 2 ms + lagIndex, plus the  *)
(* contour codebook entry per sub-frame, clamped to [2 ms, 18 ms].           *)

FsSetKHz == {8, 12, 16}
MinLag(fs) == 2 * fs
MaxLag(fs) == 18 * fs
NContours(fs, nb) == IF fs = 8 THEN (IF nb = 4 THEN 11 ELSE 3) ELSE (IF nb = 4 THEN 34 ELSE 12)
ContourCB(fs, nb) ==
  IF fs = 8 THEN (IF nb = 4 THEN Tab.lag.s2 ELSE Tab.lag.s2_10)
            ELSE (IF nb = 4 THEN Tab.lag.s3 ELSE Tab.lag.s3_10)
\* the codebooks have the shape the index domain needs
ContourShapeOK(fs, nb) ==
  LET cb == ContourCB(fs, nb) IN Len(cb) = nb /\ \A k \in 1..nb : Len(cb[k]) = NContours(fs, nb)
PitchLags(lagIndex, contour, fs, nb) ==
  [k \in 1..nb |-> Clamp(MinLag(fs) + lagIndex + ContourCB(fs, nb)[k][contour + 1], MinLag(fs), MaxLag(fs))]
\* absolute coding: 32 high parts times fs/2, plus fs/2 low parts
MaxAbsLagIndex(fs) == 32 * (fs \div 2) - 1
LagDeltaSet == (-8)..11
MaxFramesPerPacket == 3

-----------------------------------------------------------------------------
(* Normalised LSFs (RFC 6716 4.2.7.5).  cbSel 0 = NB/MB (order 10), 1 = WB  *)
(* (order 16).  idx = <<I1, res_1 .. res_order>>, residuals in -10..10.      *)

CB(cbSel) == Tab.cb[cbSel + 1]
ResMax == 10
ResAdjQ10 == 102                         \* 0.1 in Q10

\* silk_NLSF_unpack: backward-prediction weights and entropy-table offsets selected per coefficient
SelEntry(cb, i1, i) == cb.sel[((i1 * cb.order) \div 2) + ((i - 1) \div 2) + 1]       \* i is 1-based
PredQ8(cb, i1) ==
  [i \in 1..cb.order |->
     LET e == SelEntry(cb, i1, i)  base == 2 * ((i - 1) \div 2) IN
     IF (i - 1) % 2 = 0 THEN cb.pred[base + (e % 2) * (cb.order - 1) + 1]
                        ELSE cb.pred[base + ((e \div 16) % 2) * (cb.order - 1) + 2]]
EcIx(cb, i1) ==
  [i \in 1..cb.order |->
     LET e == SelEntry(cb, i1, i) IN
     IF (i - 1) % 2 = 0 THEN ((e \div 2) % 8) * 9 ELSE ((e \div 32) % 8) * 9]

\* silk_NLSF_residual_dequant, from the last coefficient backwards
RECURSIVE ResDequantFrom(_, _, _, _, _, _)
ResDequantFrom(i, outNext, acc, res, pred, qstep) ==
  IF i = 0 THEN acc
  ELSE LET predQ10 == Shr(SMULBB(outNext, pred[i]), 8)
           o1 == res[i] * 1024
           o2 == IF o1 > 0 THEN o1 - ResAdjQ10 ELSE IF o1 < 0 THEN o1 + ResAdjQ10 ELSE 0
       IN Only({ ResDequantFrom(i - 1, o, <<S16(o)>> \o acc, res, pred, qstep) : o \in {SMLAWB(predQ10, o2, qstep)} })
ResDequant(cb, i1, res) == ResDequantFrom(cb.order, 0, <<>>, res, PredQ8(cb, i1), cb.qstep)

\* first stage plus weighted residual, before stabilisation
NLSFRawX(cb, i1, x) ==
  [i \in 1..cb.order |->
     Limit(TruncDiv(x[i] * 16384, cb.w[i1 * cb.order + i]) + cb.cb1[i1 * cb.order + i] * 128, 0, 32767)]
NLSFRaw(cb, idx) ==
  Only({ NLSFRawX(cb, idx[1], x) : x \in {ResDequant(cb, idx[1], [i \in 1..cb.order |-> idx[i + 1]])} })

\* silk_NLSF_stabilize ------------------------------------------------------
MaxStabLoops == 20

\* index (1..L+1) of the first smallest distance, and that distance
Dists(N, d, L) ==
  [i \in 1..(L + 1) |-> IF i = 1 THEN N[1] - d[1]
                        ELSE IF i = L + 1 THEN 32768 - (N[L] + d[L + 1])
                        ELSE N[i] - (N[i - 1] + d[i])]
MinDiffOf(D, L) ==
  Only({ <<I, D[I]>> : I \in {i \in 1..(L + 1) : \A j \in 1..(L + 1) : D[j] > D[i] \/ (D[j] = D[i] /\ j >= i)} })
MinDiff(N, d, L) == Only({ MinDiffOf(D, L) : D \in {Dists(N, d, L)} })

RECURSIVE InsertSorted(_, _)
InsertSorted(s, v) ==      \* s sorted increasing; v goes after every element <= v (insertion sort from the right)
  IF s = <<>> THEN <<v>>
  ELSE IF v < s[Len(s)] THEN Append(InsertSorted(SubSeq(s, 1, Len(s) - 1), v), s[Len(s)])
  ELSE Append(s, v)
RECURSIVE SortFrom(_, _, _)
SortFrom(s, i, acc) == IF i > Len(s) THEN acc ELSE SortFrom(s, i + 1, InsertSorted(acc, s[i]))
SortInc(s) == SortFrom(s, 1, <<>>)

RECURSIVE FwdPass(_, _, _, _)
FwdPass(N, d, L, i) ==
  IF i > L THEN N ELSE FwdPass([N EXCEPT ![i] = Max2(N[i], Sat16(N[i - 1] + d[i]))], d, L, i + 1)
RECURSIVE BwdPass(_, _, _)
BwdPass(N, d, i) ==
  IF i < 1 THEN N ELSE BwdPass([N EXCEPT ![i] = S16(Min2(N[i], N[i + 1] - d[i + 1]))], d, i - 1)
StabFallback(N0, d, L) ==
  LET s == SortInc(N0)
      a == [s EXCEPT ![1] = Max2(s[1], d[1])]
      b == FwdPass(a, d, L, 2)
      c == [b EXCEPT ![L] = S16(Min2(b[L], 32768 - d[L + 1]))]
  IN BwdPass(c, d, L - 1)

\* result: the stabilised vector and the number of iterations used (MaxStabLoops = fell through to the fallback)
Spread(N, d, L, I) ==          \* move N[I-1], N[I] apart around their (limited) centre
  LET minC == SumTo(d, 1, I - 1) + Shr(d[I], 1)
      maxC == 32768 - SumTo(d, I + 1, L + 1) - Shr(d[I], 1)
      ctr == S16(Limit(RShiftRound(N[I - 1] + N[I], 1), minC, maxC))
  IN Only({ [N EXCEPT ![I - 1] = lo, ![I] = S16(lo + d[I])] : lo \in {S16(ctr - Shr(d[I], 1))} })
RECURSIVE StabLoop(_, _, _, _)
StabAct(N, d, L, loops, I, mind) ==
  IF mind >= 0 THEN [q |-> N, loops |-> loops]
  ELSE IF I = 1 THEN StabLoop([N EXCEPT ![1] = d[1]], d, L, loops + 1)
  ELSE IF I = L + 1 THEN StabLoop([N EXCEPT ![L] = S16(32768 - d[L + 1])], d, L, loops + 1)
  ELSE StabLoop(Spread(N, d, L, I), d, L, loops + 1)
StabLoop(N0, d, L, loops0) ==
  Only({ IF loops = MaxStabLoops THEN [q |-> StabFallback(N, d, L), loops |-> loops]
         ELSE Only({ StabAct(N, d, L, loops, md[1], md[2]) : md \in {MinDiff(N, d, L)} })
       : N \in {N0}, loops \in {loops0} })
NLSFStabilizeL(N, d, L) == StabLoop(N, d, L, 0)
NLSFStabilize(N, d, L) == StabLoop(N, d, L, 0).q

NLSFDecode(cbSel, idx) == LET cb == CB(cbSel) IN NLSFStabilize(NLSFRaw(cb, idx), cb.dmin, cb.order)

\* the property's clauses on a decoded vector
NLSFInRange(q) == \A i \in 1..Len(q) : q[i] \in 0..32767
NLSFOrdered(q) == \A i \in 2..Len(q) : q[i - 1] < q[i]
NLSFSpaced(q, d) ==
  LET L == Len(q) IN
  /\ q[1] >= d[1]
  /\ \A i \in 2..L : q[i] - q[i - 1] >= d[i]
  /\ q[L] <= 32768 - d[L + 1]
NLSFIndexOK(cbSel, idx) ==
  LET cb == CB(cbSel) IN
  /\ Len(idx) = cb.order + 1
  /\ idx[1] \in 0..(cb.nv - 1)
  /\ \A i \in 2..(cb.order + 1) : idx[i] \in (-ResMax)..ResMax

\* interpolated vector for the first half of a 20 ms frame (decode_parameters), w in 0..3
NLSFInterp(prevQ, q, w) == [i \in 1..Len(q) |-> S16(prevQ[i] + Shr(w * (q[i] - prevQ[i]), 2))]

-----------------------------------------------------------------------------
(* Prediction coefficients from NLSFs (RFC 6716 4.2.7.5.5-4.2.7.5.8):       *)
(* silk_NLSF2A, silk_LPC_fit, silk_bwexpander_32, silk_bwexpander.  The      *)
(* 32x32->64-bit products of the C code are computed exactly with the        *)
(* operands split into limbs so that every intermediate stays below 2^31.    *)
(* Not modelled: silk_LPC_inverse_pred_gain (the decision how many rounds    *)
(* of bandwidth expansion NLSF2A applies); NLSF2ACandidates lists the        *)
(* outcome for every possible number of rounds 0..16.                        *)

\* (a*b + 2^15) >> 16 exactly, for |a| < 2^18 and any 32-bit b   (silk_RSHIFT_ROUND64(silk_SMULL(a, b), 16))
MulRR16(a, b) ==
  LET bh == b \div 65536  bl == b % 65536
      ah == a \div 256    al == a % 256
      tt == ah * bl
  IN a * bh + (tt \div 256) + (((tt % 256) * 256 + al * bl + 32768) \div 65536)
\* (a*b) >> 16 exactly, same operand ranges   (silk_SMULWW)
MulShr16(a, b) ==
  LET bh == b \div 65536  bl == b % 65536
      ah == a \div 256    al == a % 256
      tt == ah * bl
  IN a * bh + (tt \div 256) + (((tt % 256) * 256 + al * bl) \div 65536)

Ordering16 == <<0, 15, 8, 7, 4, 11, 12, 3, 2, 13, 10, 5, 6, 9, 14, 1>>
Ordering10 == <<0, 9, 6, 3, 4, 5, 8, 1, 2, 7>>

\* 2*cos(pi*NLSF) in Q16 by table interpolation, stored at the reordered position
CosQ16(v) ==
  LET fi == v \div 256  ff == v % 256
      c0 == Tab.cos[fi + 1]  dl == Tab.cos[fi + 2] - c0
  IN RShiftRound(c0 * 256 + dl * ff, 4)
CosReordered(q) ==
  LET d == Len(q)  ord == IF d = 16 THEN Ordering16 ELSE Ordering10 IN
  [j \in 0..(d - 1) |-> CosQ16(q[(CHOOSE k \in 1..d : ord[k] = j)])]

\* silk_NLSF2A_find_poly: one more factor (1 - f z + z^2); every right-hand side reads the old polynomial
PolyStep(old, k, f, dd) ==
  [n \in 0..dd |->
     IF n = 0 THEN old[0]
     ELSE IF n = 1 THEN old[1] - f
     ELSE IF n <= k THEN old[n] + old[n - 2] - MulRR16(f, old[n - 1])
     ELSE IF n = k + 1 THEN 2 * old[k - 1] - MulRR16(f, old[k])
     ELSE 0]
RECURSIVE PolyFrom(_, _, _, _)
PolyFrom(out0, k, c, dd) ==
  IF k = dd THEN out0 ELSE Only({ PolyFrom(PolyStep(out, k, c[k], dd), k + 1, c, dd) : out \in {out0} })
\* c[0..dd-1]
FindPoly(c, dd) == PolyFrom([n \in 0..dd |-> IF n = 0 THEN 65536 ELSE IF n = 1 THEN -c[0] ELSE 0], 1, c, dd)

\* unscaled coefficients in Q17, 0-based
A32FromNLSF(q) ==
  LET d == Len(q)  dd == d \div 2 IN
  Only({ Only({ [k \in 0..(d - 1) |->
                   IF k < dd THEN -(PQ[2][k + 1] - PQ[2][k]) - (PQ[1][k + 1] + PQ[1][k])
                   ELSE LET m == d - k - 1 IN (PQ[2][m + 1] - PQ[2][m]) - (PQ[1][m + 1] + PQ[1][m])]
                : PQ \in {<<FindPoly([i \in 0..(dd - 1) |-> cs[2 * i]], dd),
                            FindPoly([i \in 0..(dd - 1) |-> cs[2 * i + 1]], dd)>>} })
         : cs \in {CosReordered(q)} })

\* silk_bwexpander_32 on a 0-based vector
RECURSIVE Bwe32From(_, _, _, _, _)
Bwe32From(ar0, i, d, chirp0, cm1) ==
  Only({ IF i = d - 1 THEN [ar EXCEPT ![i] = MulShr16(chirp, ar[i])]
         ELSE Bwe32From([ar EXCEPT ![i] = MulShr16(chirp, ar[i])], i + 1, d, chirp + RShiftRound(chirp * cm1, 16), cm1)
       : ar \in {ar0}, chirp \in {chirp0} })
Bwe32(ar, d, chirp) == Bwe32From(ar, 0, d, chirp, chirp - 65536)

\* silk_LPC_fit(a_Q12, a_Q17, 12, 17, d): result [a32 |-> updated Q17 vector, a |-> Q12 values before the int16 cast]
MaxAbsIdx(a, d) ==      \* <<first index of the largest magnitude, that magnitude>>
  Only({ <<I, Abs(a[I])>> : I \in {i \in 0..(d - 1) : \A j \in 0..(d - 1) : Abs(a[j]) < Abs(a[i]) \/ (Abs(a[j]) = Abs(a[i]) /\ j >= i)} })
RECURSIVE FitFrom(_, _, _)
FitFrom(a0, d, it) ==
  Only({ IF it = 10
         THEN LET c == [k \in 0..(d - 1) |-> Sat16(RShiftRound(a[k], 5))] IN [a32 |-> [k \in 0..(d - 1) |-> c[k] * 32], a |-> c]
         ELSE Only({ IF RShiftRound(mi[2], 5) > 32767
                     THEN LET m == Min2(RShiftRound(mi[2], 5), 163838)
                              chirp == 65470 - TruncDiv((m - 32767) * 16384, Shr(m * (mi[1] + 1), 2))
                          IN FitFrom(Bwe32(a, d, chirp), d, it + 1)
                     ELSE [a32 |-> a, a |-> [k \in 0..(d - 1) |-> RShiftRound(a[k], 5)]]
                   : mi \in {MaxAbsIdx(a, d)} })
       : a \in {a0} })
LPCFit(a32, d) == FitFrom(a32, d, 0)

\* silk_bwexpander (16-bit coefficients, 1-based sequence), used after a lost packet with chirp 63570
RECURSIVE Bwe16From(_, _, _, _)
Bwe16From(ar0, i, chirp0, cm1) ==
  Only({ IF i = Len(ar) THEN [ar EXCEPT ![i] = S16(RShiftRound(chirp * ar[i], 16))]
         ELSE Bwe16From([ar EXCEPT ![i] = S16(RShiftRound(chirp * ar[i], 16))], i + 1, chirp + RShiftRound(chirp * cm1, 16), cm1)
       : ar \in {ar0}, chirp \in {chirp0} })
Bwe16(ar, chirp) == Bwe16From(ar, 1, chirp, chirp - 65536)
BweAfterLossQ16 == 63570

MaxLpcStabIter == 16
AsSeq(f, d) == [k \in 1..d |-> f[k - 1]]
FitsInt16(s) == \A k \in 1..Len(s) : s[k] >= -32768 /\ s[k] <= 32767
\* does `a` (the int16 coefficients the library produced) equal the NLSF2A outcome after some number of
\* stabilising rounds, with every Q12 value inside 16 bits before the cast?
RECURSIVE A2Match(_, _, _, _, _)
A2Match(a, a32, cur, d, i) ==
  \/ (FitsInt16(cur) /\ cur = a)
  \/ /\ i < MaxLpcStabIter
     /\ Only({ A2Match(a, nx, AsSeq([k \in 0..(d - 1) |-> RShiftRound(nx[k], 5)], d), d, i + 1)
              : nx \in {Bwe32(a32, d, 65536 - 2 ^ (i + 1))} })
NLSF2AMatches(a, q) ==
  LET d == Len(q) IN Only({ A2Match(a, f.a32, AsSeq(f.a, d), d, 0) : f \in {LPCFit(A32FromNLSF(q), d)} })
\* the same with the post-loss bandwidth expansion applied on top
RECURSIVE A2MatchLoss(_, _, _, _, _)
A2MatchLoss(a, a32, cur, d, i) ==
  \/ (FitsInt16(cur) /\ Bwe16(cur, BweAfterLossQ16) = a)
  \/ /\ i < MaxLpcStabIter
     /\ Only({ A2MatchLoss(a, nx, AsSeq([k \in 0..(d - 1) |-> RShiftRound(nx[k], 5)], d), d, i + 1)
              : nx \in {Bwe32(a32, d, 65536 - 2 ^ (i + 1))} })
NLSF2AMatchesLoss(a, q) ==
  LET d == Len(q) IN Only({ A2MatchLoss(a, f.a32, AsSeq(f.a, d), d, 0) : f \in {LPCFit(A32FromNLSF(q), d)} })

\* sanity of the exported tables that the index arithmetic above relies on (shape only)
CBShapeOK(cb) ==
  /\ cb.order \in {10, 16} /\ cb.nv = 32
  /\ Len(cb.cb1) = cb.nv * cb.order /\ Len(cb.w) = cb.nv * cb.order
  /\ Len(cb.pred) = 2 * (cb.order - 1) /\ Len(cb.sel) = (cb.nv * cb.order) \div 2
  /\ Len(cb.dmin) = cb.order + 1 /\ Len(cb.ecicdf) = 72
=============================================================================
