-------------------------- MODULE SilkParams_mc --------------------------
(* Exhaustive TLC runs over module SilkParams.  One variable; the cfg      *)
(* selects the machine through INIT/NEXT:                                  *)
(*   GainInit/GainNext   the gain accumulator, 64 levels x (64 absolute +   *)
(*                       41 delta) actions, every (state, action) pair      *)
(*   LagInit/LagNext     every lag index x contour x rate x frame size, and *)
(*                       the lag-index accumulator over a packet            *)
(*   NlsfInit/NlsfNext   both codebooks, every first-stage vector, families *)
(*                       of residual vectors (cut into 16 slices, one       *)
(*                       initial state each, so that the workers share them)*)
(* Violated invariants of the lag and NLSF machines are reported as         *)
(* violations of the property (the tables come from the library under test);*)
(* the gain machine uses no table: a violation there is a model defect.     *)
EXTENDS SilkParams, FiniteSets
CONSTANTS RawSpan,              \* raw log-domain levels -RawSpan..RawSpan offered to the quantiser model
          LagSlack,             \* lag indices checked: -LagSlack .. MaxAbsLagIndex + LagSlack
          NbSigns,              \* BOOLEAN: all {-10,10}^10 residual vectors for NB/MB
          WbSignsStride,        \* 0: off; k > 0: all {-10,10}^16 residual vectors for the WB first-stage vectors i1 with (i1 + StrideOffset) % k = 0
          NbTernaryStride,      \* 0: off; k > 0: all {-10,0,10}^10 residual vectors for the NB/MB first-stage vectors i1 with (i1 + StrideOffset) % k = 0
          StrideOffset,         \* the strided families take the first-stage vectors with (i1 + StrideOffset) % k = 0
          WbHalfSigns           \* WB, {-10,10} on 8 coefficients and 0 elsewhere: 0 off, 1 lower/upper half, 2 also even/odd coefficients
VARIABLE s

-----------------------------------------------------------------------------
(* gains *)
GainRec(from, act, ind, st) == [m |-> "gain", from |-> from, act |-> act, ind |-> ind, prev |-> st.prev, gain |-> st.gain]
GainInit == s = GainRec(10, "init", 0, [prev |-> 10, gain |-> GainOfLevel(10)])
GainAbs == \E i \in 0..(NLevels - 1) : s' = GainRec(s.prev, "abs", i, GainDequantStep(s.prev, i, FALSE))
GainDelta == \E d \in 0..(NDelta - 1) : s' = GainRec(s.prev, "delta", d, GainDequantStep(s.prev, d, TRUE))
GainNext == GainAbs \/ GainDelta

PrevInRange == s.prev \in 0..(NLevels - 1)
GainInRange == /\ s.gain = GainOfLevel(s.prev)
               /\ GainOfLevel(0) <= s.gain /\ s.gain <= GainOfLevel(NLevels - 1)
               /\ s.gain > 0 /\ s.gain < 2147483647
\* one representative state per level (reached by Abs(p) from level p), so that the per-level theorems are evaluated 64 times
Rep == s.act = "abs" /\ s.ind = s.prev /\ s.from = s.prev
GainMonotone == Rep => \A p \in 0..(NLevels - 2) : GainOfLevel(p) < GainOfLevel(p + 1)
NoDropMoreThan16 == (s.act = "abs") => (s.prev >= s.from - 16 /\ s.prev >= s.ind)
DeltaStep == (s.act = "delta") =>
               \/ s.prev = Clamp(s.from + s.ind + MinDelta, 0, NLevels - 1)
               \/ (s.prev = Clamp(2 * s.ind - 16, 0, NLevels - 1) /\ 2 * s.ind - 16 > s.from + s.ind + MinDelta)
\* what the quantiser model emits is always a codable index, and the decoder reconstructs the encoder's level and gain
QuantDequantAgree == Rep =>
  \A r \in (-RawSpan)..RawSpan, c \in BOOLEAN :
     LET q == GainQuantRawStep(s.prev, r, c)
         dq == GainDequantStep(s.prev, q.ind, c)
     IN GainIndexOK(q.ind, c) /\ dq.prev = q.prev /\ dq.gain = q.gain
\* the quantiser never moves away from its target by more than the double-step granularity allows
QuantClose == Rep =>
  \A r \in 0..(NLevels - 1), c \in BOOLEAN :
     LET q == GainQuantRawStep(s.prev, r, c) IN
     (q.prev # r /\ q.prev # r + 1) =>
        \/ (~c /\ q.prev = s.prev + MinDelta /\ r < q.prev)                 \* limited fall, absolute
        \/ (c /\ q.prev = s.prev + MinDelta /\ r < q.prev)                  \* limited fall, delta
        \/ (c /\ r > s.prev + 2 * MaxDelta - NLevels + s.prev)             \* double-step region (even grid) or limited rise

-----------------------------------------------------------------------------
(* pitch lags *)
LagIdxSet(fs) == (-LagSlack)..(MaxAbsLagIndex(fs) + LagSlack)
LagInit == s = [m |-> "lag0"]
LagAll ==
  /\ s.m = "lag0"
  /\ \E fs \in FsSetKHz, nb \in {2, 4} : \E li \in LagIdxSet(fs), ci \in 0..(NContours(fs, nb) - 1) :
        s' = [m |-> "lag", fs |-> fs, nb |-> nb, li |-> li, ci |-> ci, lags |-> PitchLags(li, ci, fs, nb)]
\* the lag index itself: absolute in the first frame of a packet, then absolute or previous + delta
LagIdxStart ==
  /\ s.m = "lag0"
  /\ \E fs \in FsSetKHz : \E li \in 0..MaxAbsLagIndex(fs) : s' = [m |-> "lagidx", fs |-> fs, li |-> li, frame |-> 1]
LagIdxStep ==
  /\ s.m = "lagidx" /\ s.frame < MaxFramesPerPacket
  /\ \/ \E dl \in LagDeltaSet : s' = [s EXCEPT !.li = s.li + dl, !.frame = s.frame + 1]
     \/ \E li \in 0..MaxAbsLagIndex(s.fs) : s' = [s EXCEPT !.li = li, !.frame = s.frame + 1]
LagNext == LagAll \/ LagIdxStart \/ LagIdxStep

LagsInRange == (s.m = "lag") => \A k \in 1..s.nb : s.lags[k] >= MinLag(s.fs) /\ s.lags[k] <= MaxLag(s.fs)
LagTablesOK == (s.m = "lag0") => \A fs \in FsSetKHz, nb \in {2, 4} : ContourShapeOK(fs, nb)
\* every lag index a packet can produce lies in the set over which LagsInRange is checked
LagIndexCovered == (s.m = "lagidx") => s.li \in LagIdxSet(s.fs)
\* in-range absolute indices never need the clamp for the flat contour (sanity of the index scaling)
LagAbsExact == (s.m = "lag" /\ s.ci = 0 /\ s.li \in 0..MaxAbsLagIndex(s.fs)) =>
                  \A k \in 1..s.nb : s.lags[k] = MinLag(s.fs) + s.li

-----------------------------------------------------------------------------
(* NLSF *)
Const(o, v) == [i \in 1..o |-> v]
Extremes(o) ==
  {Const(o, 0)} \cup
  UNION { {Const(o, v),
           [i \in 1..o |-> IF i % 2 = 1 THEN v ELSE -v],
           [i \in 1..o |-> IF ((i - 1) \div 2) % 2 = 1 THEN v ELSE -v]}
          \cup {[i \in 1..o |-> IF i = k THEN v ELSE 0] : k \in 1..o}
          \cup {[i \in 1..o |-> IF i = k THEN v ELSE -v] : k \in 1..o}
          \cup {[i \in 1..o |-> IF i <= k THEN v ELSE -v] : k \in 1..o}
        : v \in {-10, 10, -4, 4, -1, 1} }
Half(o, keep, vals) == { [i \in 1..o |-> IF i \in keep THEN f[i] ELSE 0] : f \in [keep -> vals] }
\* The big families are cut into 16 slices (by the first coefficients) so that TLC's workers share them:
\* one initial state per (codebook, first-stage vector, slice).
NSlices == 16
Bit(b, i) == (b \div (2 ^ (i - 1))) % 2
SignsSlice(o, b) ==
  { [i \in 1..o |-> IF i <= 4 THEN (IF Bit(b, i) = 1 THEN 10 ELSE -10) ELSE f[i]] : f \in [5..o -> {-10, 10}] }
TernSlice(o, b) ==
  IF b >= 9 THEN {}
  ELSE { [i \in 1..o |-> IF i = 1 THEN 10 * ((b % 3) - 1) ELSE IF i = 2 THEN 10 * ((b \div 3) - 1) ELSE f[i]] : f \in [3..o -> {-10, 0, 10}] }
ResFamilies(cbSel, i1, o, slice) ==
  (IF slice = 0 THEN Extremes(o) ELSE {})
  \cup (IF cbSel = 0 /\ NbSigns THEN SignsSlice(o, slice) ELSE {})
  \cup (IF cbSel = 0 /\ NbTernaryStride > 0 /\ (i1 + StrideOffset) % NbTernaryStride = 0 THEN TernSlice(o, slice) ELSE {})
  \cup (IF cbSel = 1 /\ WbSignsStride > 0 /\ (i1 + StrideOffset) % WbSignsStride = 0 THEN SignsSlice(o, slice) ELSE {})
  \cup (IF cbSel = 1 /\ WbHalfSigns >= 1 /\ slice = 1 THEN Half(o, 1..8, {-10, 10}) \cup Half(o, 9..16, {-10, 10}) ELSE {})
  \cup (IF cbSel = 1 /\ WbHalfSigns >= 2 /\ slice = 2
        THEN Half(o, {1, 3, 5, 7, 9, 11, 13, 15}, {-10, 10}) \cup Half(o, {2, 4, 6, 8, 10, 12, 14, 16}, {-10, 10}) ELSE {})

NlsfInit == \E cbSel \in {0, 1} : \E i1 \in 0..(CB(cbSel).nv - 1), sl \in 0..(NSlices - 1) :
               s = [m |-> "n0", cb |-> cbSel, i1 |-> i1, slice |-> sl]
NlsfStep ==
  /\ s.m = "n0"
  /\ \E res \in ResFamilies(s.cb, s.i1, CB(s.cb).order, s.slice) :
       \E cb \in {CB(s.cb)} : \E idx \in {<<s.i1>> \o res} :
         \E r \in {NLSFStabilizeL(NLSFRaw(cb, idx), cb.dmin, cb.order)} :
            s' = [m |-> "n", cb |-> s.cb, idx |-> idx, loops |-> r.loops, q |-> r.q]
\* vacuity guard: one marker state per (codebook, iteration count) that occurred; NlsfSeen prints each once
NlsfMark == s.m = "n" /\ s' = [m |-> "seen", cb |-> s.cb, loops |-> s.loops]
NlsfNext == NlsfStep \/ NlsfMark
NlsfSeen == (s.m = "seen") => PrintT(<<"SEEN", s.cb, s.loops>>)

NlsfInRange == (s.m = "n") => NLSFInRange(s.q)
NlsfOrdered == (s.m = "n") => NLSFOrdered(s.q)
NlsfSpaced  == (s.m = "n") => NLSFSpaced(s.q, CB(s.cb).dmin)
NlsfTablesOK == (s.m = "n0" /\ s.i1 = 0 /\ s.slice = 0) =>
  \A c \in {0, 1} : LET cb == CB(c) IN
     /\ CBShapeOK(cb)
     /\ \A i \in 1..(cb.order + 1) : cb.dmin[i] >= 1                        \* strict ordering follows from spacing
     /\ SumTo(cb.dmin, 1, cb.order + 1) <= 32768                            \* the spacings fit the unit interval
     /\ \A i \in 1..Len(cb.w) : cb.w[i] > 0                                 \* weights are divisors
     /\ \A i1 \in 0..(cb.nv - 1) : \A i \in 1..cb.order : EcIx(cb, i1)[i] + 8 < Len(cb.ecicdf)
\* stabilising a vector that is already spaced changes nothing (idempotence on the output)
NlsfIdempotent == (s.m = "n") => NLSFStabilize(s.q, CB(s.cb).dmin, CB(s.cb).order) = s.q
=============================================================================
