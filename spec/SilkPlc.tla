------------------------------- MODULE SilkPlc -------------------------------
(***************************************************************************)
(* Growth module G13.  The speech decoder's concealment and comfort-noise   *)
(* PARAMETER state machine, transcribed exactly (it is 32-bit integer       *)
(* arithmetic in every build):                                             *)
(*   silk/PLC.c          silk_PLC_Reset, silk_PLC (dispatch), silk_PLC_update,*)
(*                       silk_PLC_conceal (parameters only, not the synthesis *)
(*                       filter output), silk_PLC_glue_frames               *)
(*   silk/CNG.c          silk_CNG_Reset, silk_CNG (estimate update, seed)   *)
(*   silk/decode_frame.c the lostFlag paths, lossCnt, first_frame_after_reset,*)
(*                       prevSignalType, lagPrev                            *)
(*   silk/decoder_set_fs.c, silk/init_decoder.c                             *)
(*                                                                         *)
(* State (one record per silk_decoder_state, i.e. per internal channel):    *)
(*   lc lossCnt   ps prevSignalType   ffar first_frame_after_reset          *)
(*   lagPrev   fs fs_kHz   nb nb_subfr   sfl subfr_length   frl frame_length  *)
(*   ord LPC_order   ltpmem ltp_mem_length                                  *)
(*   sPLC: pfs fs_kHz  pitch pitchL_Q8  B LTPCoef_Q14[5]  lsc prevLTP_scale_Q14*)
(*         g0,g1 prevGain_Q16[0..1]  rs randScale_Q14  seed rand_seed <<hi,lo>>*)
(*         lfl last_frame_lost  ce conc_energy  ces conc_energy_shift        *)
(*         psfl subfr_length  pnb nb_subfr  lpc prevLPC_Q12[16]              *)
(*   sCNG: cfs fs_kHz  cg CNG_smth_Gain_Q16  cseed rand_seed <<hi,lo>>       *)
(*         nlsf CNG_smth_NLSF_Q15[16]                                       *)
(* Oracles (measured by the harness, bounded here): the frame energies of    *)
(* silk_sum_sqr_shift (ge, gs) and silk_LPC_inverse_pred_gain (ig, 0..2^30). *)
(*                                                                         *)
(* Refinement mapping to spec/DecOp.tla (its per-channel SILK bookkeeping    *)
(* s.sk.ch[n]):  l = lc,  f = ffar,  ll = lfl,  t = ps,  fs = fs;  DecOp's   *)
(* invariant "ll = 1 <=> l > 0" is theorem LflIffLoss of SilkPlc_mc.         *)
(*                                                                         *)
(* The arithmetic helpers are those of spec/SilkParams.tla (same definitions;*)
(* that module is not EXTENDed because it reads a table file at start-up).   *)
(* R6: every intermediate stays below 2^31; 32-bit seeds are <<hi16, lo16>>. *)
(***************************************************************************)
EXTENDS Integers, Sequences, FiniteSets

Min2(a, b) == IF a < b THEN a ELSE b
Max2(a, b) == IF a > b THEN a ELSE b
P2(n) == 2 ^ n
Shr(x, n) == IF n >= 31 THEN (IF x < 0 THEN 0 - 1 ELSE 0) ELSE x \div P2(n)      \* arithmetic shift right
S16(x) == ((x + 32768) % 65536) - 32768                                        \* (opus_int16) cast
Abs(x) == IF x < 0 THEN 0 - x ELSE x
TruncDiv(a, b) == LET q == Abs(a) \div Abs(b) IN IF (a < 0) = (b < 0) THEN q ELSE 0 - q   \* C integer division
SMULWB(a, b) == LET bb == S16(b)  ah == a \div 65536  al == a % 65536 IN ah * bb + ((al * bb) \div 65536)
SMLAWB(acc, a, b) == acc + SMULWB(a, b)
SMULBB(a, b) == S16(a) * S16(b)
RShiftRound(a, s) == IF s = 1 THEN (a \div 2) + (a % 2) ELSE ((a \div P2(s - 1)) + 1) \div 2
SMULWW(a, b) == SMULWB(a, b) + a * RShiftRound(b, 16)
FloorLog2(x) == CHOOSE p \in 0..30 : P2(p) <= x /\ (p = 30 \/ x < P2(p + 1))
CLZ32(x) == IF x <= 0 THEN 32 ELSE 31 - FloorLog2(x)                            \* for 0 <= x < 2^31
Zeros(n) == [i \in 1..n |-> 0]

\* ---- constants of the code
TYPE_NO_VOICE == 0
TYPE_UNVOICED == 1
TYPE_VOICED   == 2
FLAG_NORMAL == 0
FLAG_LOST   == 1
FLAG_LBRR   == 2
NB_ATT == 2
HARM_ATT    == <<32440, 31130>>
RAND_ATT_V  == <<31130, 26214>>
RAND_ATT_UV == <<32440, 29491>>
V_PITCH_GAIN_START_MIN == 11469
V_PITCH_GAIN_START_MAX == 15565
MAX_PITCH_LAG_MS == 18
PITCH_DRIFT_FAC == 655
BWE_CHIRP == 64881                       \* SILK_FIX_CONST(0.99, 16)
LOG2_HIGH == 3
LOG2_LOW  == 8
CNG_GAIN_SMTH == 4634
CNG_GAIN_THR  == 46396
CNG_NLSF_SMTH == 16348
CNG_SEED0 == <<48, 30848>>               \* 3176576
LTP_ORDER == 5
MaxLagQ8(fs) == MAX_PITCH_LAG_MS * fs * 256
OrderOf(fs) == IF fs = 16 THEN 16 ELSE 10

\* ---- 32-bit unsigned words as <<hi16, lo16>>
MulLo16(x, y) == (x * (y % 256) + ((x * (y \div 256)) % 256) * 256) % 65536
Mul32(a, b) ==     \* low 32 bits of the product
  LET t0 == a[2] * (b[2] % 256)
      t1 == a[2] * (b[2] \div 256)
      u  == t0 + (t1 % 256) * 256
      lo == u % 65536
      hp == (u \div 65536) + (t1 \div 256)
  IN <<(hp + MulLo16(a[1], b[2]) + MulLo16(a[2], b[1])) % 65536, lo>>
Add32(a, b) == <<(a[1] + b[1] + ((a[2] + b[2]) \div 65536)) % 65536, (a[2] + b[2]) % 65536>>
RAND_MULT == <<2995, 33845>>             \* 196314165
RAND_INC  == <<13849, 25451>>            \* 907633515
Rand1(s) == Add32(RAND_INC, Mul32(s, RAND_MULT))          \* silk_RAND
RECURSIVE RandIter(_, _)
RandIter(s, n) == IF n = 0 THEN s ELSE RandIter(Rand1(s), n - 1)
\* n applications of silk_RAND are one affine map; the five frame lengths (checked against RandIter by SilkPlc_mc)
LcgTab(n) == CASE n = 80  -> <<<<36543, 10689>>, <<63017, 19472>>>>
               [] n = 120 -> <<<<52244, 42145>>, <<55918, 15512>>>>
               [] n = 160 -> <<<<28877, 25473>>, <<51306, 13344>>>>
               [] n = 240 -> <<<<47878, 44353>>, <<46195, 47152>>>>
               [] n = 320 -> <<<<25415, 1793>>,  <<38326, 55360>>>>
FrameLens == {80, 120, 160, 240, 320}
RandN(s, n) == IF n \in FrameLens THEN Add32(LcgTab(n)[2], Mul32(s, LcgTab(n)[1])) ELSE RandIter(s, n)

\* ---- silk_SQRT_APPROX (Inlines.h) for 0 <= x < 2^31
SqrtApprox(x) ==
  IF x <= 0 THEN 0
  ELSE LET lz == CLZ32(x)
           frac == IF lz <= 24 THEN (x \div P2(24 - lz)) % 128 ELSE (x * P2(lz - 24)) % 128
           y0 == (IF lz % 2 = 1 THEN 32768 ELSE 46214) \div P2(lz \div 2)
       IN SMLAWB(y0, y0, SMULBB(213, frac))

\* ---- silk_bwexpander(ar, d, chirp)
RECURSIVE BweFrom(_, _, _, _)
BweFrom(ar, d, i, chirp) ==
  IF i > d THEN ar
  ELSE LET v == S16(RShiftRound(chirp * ar[i], 16)) IN
       IF i = d THEN [ar EXCEPT ![i] = v]
       ELSE BweFrom([ar EXCEPT ![i] = v], d, i + 1, chirp + RShiftRound(chirp * (BWE_CHIRP - 65536), 16))
Bwe(ar, d) == IF d = 0 THEN ar ELSE BweFrom(ar, d, 1, BWE_CHIRP)

-----------------------------------------------------------------------------
\* silk_init_decoder / silk_reset_decoder: everything zero, then the listed fields (LPC_order is 0: CNG_Reset writes no NLSF)
Fresh ==
  [lc |-> 0, ps |-> 0, ffar |-> 1, lagPrev |-> 0, fs |-> 0, nb |-> 0, sfl |-> 0, frl |-> 0, ord |-> 0, ltpmem |-> 0,
   pfs |-> 0, pitch |-> 0, B |-> Zeros(5), lsc |-> 0, g0 |-> 65536, g1 |-> 65536, rs |-> 0, seed |-> <<0, 0>>,
   lfl |-> 0, ce |-> 0, ces |-> 0, psfl |-> 20, pnb |-> 2,
   cfs |-> 0, cg |-> 0, cseed |-> CNG_SEED0, lpc |-> Zeros(16), nlsf |-> Zeros(16)]

\* silk_decoder_set_fs(psDec, fsNew, .) - nb_subfr has been set by the caller (dec_API.c)
SetFs(s, fsNew) ==
  LET sfl == 5 * fsNew
      frl == s.nb * sfl
      s1 == [s EXCEPT !.sfl = sfl] IN
  IF s.fs # fsNew \/ frl # s.frl
  THEN LET s2 == IF s.fs # fsNew
                 THEN [s1 EXCEPT !.ltpmem = 20 * fsNew, !.ord = OrderOf(fsNew), !.ffar = 1, !.lagPrev = 100, !.ps = TYPE_NO_VOICE]
                 ELSE s1 IN
       [s2 EXCEPT !.fs = fsNew, !.frl = frl]
  ELSE s1
SetFsTouchesGainIndex(s, fsNew) == s.fs # fsNew          \* LastGainIndex = 10 exactly then

\* dec_API.c:300-308: the side channel is restarted when it was not coded in the previous frame
SideRestart(s) == [s EXCEPT !.lagPrev = 100, !.ps = TYPE_NO_VOICE, !.ffar = 1]

\* silk_PLC_Reset + the dispatch of silk_PLC
PlcReset(s) == [s EXCEPT !.pitch = s.frl * 128, !.g0 = 65536, !.g1 = 65536, !.psfl = 20, !.pnb = 2]
PlcEnter(s) == IF s.fs # s.pfs THEN [PlcReset(s) EXCEPT !.pfs = s.fs] ELSE s

-----------------------------------------------------------------------------
\* silk_PLC_update.  in: sig, pl[1..4], ltp[1..20], gn[1..4], lsc, a1[1..16]
SubfrGain(in, k) == in.ltp[(k - 1) * 5 + 1] + in.ltp[(k - 1) * 5 + 2] + in.ltp[(k - 1) * 5 + 3] + in.ltp[(k - 1) * 5 + 4] + in.ltp[(k - 1) * 5 + 5]
\* the search over the last sub-frames: <<LTP_Gain_Q14, pitchL_Q8>>
RECURSIVE LtpSearch(_, _, _, _, _)
LtpSearch(s, in, j, best, pitch) ==
  IF j * s.sfl >= in.pl[s.nb] \/ j = s.nb THEN <<best, pitch>>
  ELSE LET t == SubfrGain(in, s.nb - j) IN
       IF t > best THEN LtpSearch(s, in, j + 1, t, in.pl[s.nb - j] * 256) ELSE LtpSearch(s, in, j + 1, best, pitch)
LimitTaps(B, gain) ==
  IF gain < V_PITCH_GAIN_START_MIN
  THEN LET scale == TruncDiv(V_PITCH_GAIN_START_MIN * 1024, Max2(gain, 1)) IN [i \in 1..5 |-> S16(Shr(SMULBB(B[i], scale), 10))]
  ELSE IF gain > V_PITCH_GAIN_START_MAX
  THEN LET scale == TruncDiv(V_PITCH_GAIN_START_MAX * 16384, Max2(gain, 1)) IN [i \in 1..5 |-> S16(Shr(SMULBB(B[i], scale), 14))]
  ELSE B
PlcUpdate(s, in) ==
  LET r == IF in.sig = TYPE_VOICED THEN LtpSearch(s, in, 0, 0, s.pitch) ELSE <<0, s.fs * 18 * 256>>
      B == IF in.sig = TYPE_VOICED THEN LimitTaps(<<0, 0, S16(r[1]), 0, 0>>, r[1]) ELSE Zeros(5) IN
  [s EXCEPT !.ps = in.sig, !.pitch = r[2], !.B = B,
            !.lpc = [i \in 1..16 |-> IF i <= s.ord THEN in.a1[i] ELSE s.lpc[i]],
            !.lsc = in.lsc, !.g0 = in.gn[s.nb - 1], !.g1 = in.gn[s.nb], !.psfl = s.sfl, !.pnb = s.nb]

-----------------------------------------------------------------------------
\* silk_PLC_conceal, parameters.  ig: silk_LPC_inverse_pred_gain of the expanded filter (oracle, 0..2^30)
AttIdx(lc) == Min2(NB_ATT - 1, lc) + 1
HarmGain(lc) == HARM_ATT[AttIdx(lc)]
RandGain0(lc, ps) == IF ps = TYPE_VOICED THEN RAND_ATT_V[AttIdx(lc)] ELSE RAND_ATT_UV[AttIdx(lc)]
DownScale(ig) == Max2(P2(30 - LOG2_LOW), Min2(P2(30 - LOG2_HIGH), ig)) * P2(LOG2_HIGH)
\* <<rand_scale_Q14, rand_Gain_Q15>> at the start of the sub-frame loop
FirstLoss(s, ig) ==
  IF s.lc # 0 THEN <<s.rs, RandGain0(s.lc, s.ps)>>
  ELSE IF s.ps = TYPE_VOICED
  THEN LET a == S16(16384 - (s.B[1] + s.B[2] + s.B[3] + s.B[4] + s.B[5]))
           b == Max2(3277, a) IN
       <<S16(Shr(SMULBB(b, s.lsc), 14)), RandGain0(0, s.ps)>>
  ELSE <<16384, Shr(SMULWB(DownScale(ig), RandGain0(0, s.ps)), 14)>>
\* one sub-frame of the attenuation loop: <<B, rs, pitch>>
SubStep(x, harm, rg, fs) ==
  <<[j \in 1..5 |-> S16(Shr(SMULBB(harm, x[1][j]), 15))],
    S16(Shr(SMULBB(x[2], rg), 15)),
    Min2(SMLAWB(x[3], x[3], PITCH_DRIFT_FAC), MaxLagQ8(fs))>>
RECURSIVE SubLoop(_, _, _, _, _)
SubLoop(x, k, harm, rg, fs) == IF k = 0 THEN x ELSE SubLoop(SubStep(x, harm, rg, fs), k - 1, harm, rg, fs)
Conceal(s, ig) ==
  LET lpc0 == IF s.ffar = 1 THEN Zeros(16) ELSE s.lpc
      f == FirstLoss(s, ig)
      x == SubLoop(<<s.B, f[1], s.pitch>>, s.nb, HarmGain(s.lc), f[2], s.fs) IN
  [s EXCEPT !.lpc = Bwe(lpc0, s.ord), !.B = x[1], !.rs = x[2], !.pitch = x[3], !.seed = RandN(s.seed, s.nb * s.sfl), !.lc = s.lc + 1]
LagOf(pitchQ8) == RShiftRound(pitchQ8, 8)

-----------------------------------------------------------------------------
\* silk_CNG, the estimate.  in: gn[1..4], pn[1..16] (prevNLSF_Q15), cl (length)
CngReset(s) ==
  LET step == 32767 \div (s.ord + 1) IN
  [s EXCEPT !.nlsf = [i \in 1..16 |-> IF i <= s.ord THEN i * step ELSE s.nlsf[i]], !.cg = 0, !.cseed = CNG_SEED0]
RECURSIVE CngGain(_, _, _, _)
CngGain(g, gn, i, nb) ==
  IF i > nb THEN g
  ELSE LET g1 == g + SMULWB(gn[i] - g, CNG_GAIN_SMTH)
           g2 == IF SMULWW(g1, CNG_GAIN_THR) > gn[i] THEN gn[i] ELSE g1 IN
       CngGain(g2, gn, i + 1, nb)
CngUpdates(s) == s.lc = 0 /\ s.ps = TYPE_NO_VOICE
Cng(s, in) ==
  LET s1 == IF s.fs # s.cfs THEN [CngReset(s) EXCEPT !.cfs = s.fs] ELSE s
      s2 == IF CngUpdates(s1)
            THEN [s1 EXCEPT !.nlsf = [i \in 1..16 |-> IF i <= s.ord THEN S16(s1.nlsf[i] + SMULWB(in.pn[i] - s1.nlsf[i], CNG_NLSF_SMTH)) ELSE s1.nlsf[i]],
                            !.cg = CngGain(s1.cg, in.gn, 1, s.nb)]
            ELSE s1 IN
  IF s2.lc > 0 THEN [s2 EXCEPT !.cseed = RandN(s2.cseed, in.cl)] ELSE s2
\* the gain of the comfort noise that is ADDED on a lost frame (local of silk_CNG; Q16): it tends to CNG_smth_Gain_Q16 as the
\* concealment's own excitation gain decays - the floor below which speech-layer concealment never falls
CngAddGainQ16(s) ==
  LET g == SMULWW(s.rs, s.g1) IN
  IF g >= P2(21) \/ s.cg > P2(23)
  THEN LET gg == (g \div 65536) * (g \div 65536)
           d == (s.cg \div 65536) * (s.cg \div 65536) - gg * 32 IN SqrtApprox(d) * 65536
  ELSE LET gg == SMULWW(g, g)
           d == SMULWW(s.cg, s.cg) - gg * 32 IN SqrtApprox(d) * 256

-----------------------------------------------------------------------------
\* silk_PLC_glue_frames.  in: ge, gs = silk_sum_sqr_shift of the frame (oracle)
\* the fade-in, when it applies: <<conc_energy after normalisation, gain_Q16, slope_Q16>>
Fade(s, in) ==
  LET ce1 == IF in.gs > s.ces THEN Shr(s.ce, in.gs - s.ces) ELSE s.ce
      en1 == IF in.gs < s.ces THEN Shr(in.ge, s.ces - in.gs) ELSE in.ge IN
  IF en1 > ce1
  THEN LET lz == CLZ32(ce1) - 1
           ce2 == IF ce1 = 0 THEN 0 ELSE ce1 * P2(lz)
           en2 == Shr(en1, Max2(24 - lz, 0))
           frac == ce2 \div Max2(en2, 1)
           gain == SqrtApprox(frac) * 16
           slope == TruncDiv(65536 - gain, in.gl) * 4 IN
       [on |-> TRUE, ce |-> ce2, gain |-> gain, slope |-> slope]
  ELSE [on |-> FALSE, ce |-> ce1, gain |-> 65536, slope |-> 0]
Glue(s, in) ==
  IF s.lc > 0 THEN [s EXCEPT !.ce = in.ge, !.ces = in.gs, !.lfl = 1]
  ELSE IF s.lfl = 1 THEN [s EXCEPT !.ce = Fade(s, in).ce, !.lfl = 0]
  ELSE [s EXCEPT !.lfl = 0]
\* sample i (0-based) of the frame after the glue
GlueScaled(f, i) == i = 0 \/ (f.gain + f.slope <= 65536 /\ f.gain + i * f.slope <= 65536)
GlueSample(s, in, i, x) ==
  IF s.lc > 0 \/ s.lfl # 1 THEN x
  ELSE LET f == Fade(s, in) IN IF f.on /\ GlueScaled(f, i) THEN S16(SMULWB(f.gain + i * f.slope, x)) ELSE x

-----------------------------------------------------------------------------
\* silk_decode_frame.  in: lf lostFlag, lb LBRR_flags[nFramesDecoded], the decoded parameters, the oracles
Decoded(in) == in.lf = FLAG_NORMAL \/ (in.lf = FLAG_LBRR /\ in.lb = 1)
AfterPlc(s, in) ==
  IF Decoded(in) THEN [PlcUpdate(PlcEnter(s), in) EXCEPT !.lc = 0, !.ps = in.sig, !.ffar = 0]
  ELSE Conceal(PlcEnter(s), in.ig)
DecodeFrame(s, in) ==
  LET s1 == AfterPlc(s, in)
      s2 == Cng(s1, in)
      s3 == Glue(s2, in) IN
  [s3 EXCEPT !.lagPrev = IF Decoded(in) THEN in.pl[s.nb] ELSE LagOf(s1.pitch)]
\* the state silk_PLC_glue_frames sees (for the sample clause)
BeforeGlue(s, in) == Cng(AfterPlc(s, in), in)

\* ---- properties of a state that the module's theorems and the trace clauses use
RangeOK(s) ==        \* C01 level: what silk_PLC_conceal needs to stay inside its buffers (celt_assert( idx > 0 )) and its tables
  /\ s.lc >= 0
  /\ (s.fs = s.pfs /\ s.fs > 0) => (s.pitch >= 0 /\ s.pitch <= MaxLagQ8(s.fs) /\ s.ltpmem - LagOf(s.pitch) - s.ord - 2 > 0)
GainsOK(s) == s.rs \in 0..16384 /\ \A j \in 1..5 : s.B[j] \in 0..V_PITCH_GAIN_START_MAX
=============================================================================
