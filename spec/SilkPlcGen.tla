----------------------------- MODULE SilkPlcGen -----------------------------
(* Loss patterns for the in-situ binding of module SilkPlc: every word of length K over                      *)
(*   G  the packet arrives and is decoded      L  the packet is lost and concealed (null packet)              *)
(*   F  the packet is lost and recovered from the NEXT packet's in-band FEC (decode_fec = 1) - so the next     *)
(*      packet must arrive (G)                                                                                *)
(* i.e. the words of SilkPlc_mc's alphabet {Good, Lost, Lbrr} that a receiver can actually produce.            *)
EXTENDS Naturals, Sequences, TLC
CONSTANT K
VARIABLES h, n, last
Init == h = "" /\ n = 0 /\ last = "G"
Next == /\ n < K
        /\ \E c \in {"G", "L", "F"} : (last = "F" => c = "G") /\ h' = h \o c /\ last' = c
        /\ n' = n + 1
Spec == Init /\ [][Next]_<<h, n, last>>
Emit == (n = K /\ last # "F") => PrintT(<<"PAT", h>>)
=============================================================================
