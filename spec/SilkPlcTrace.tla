---------------------------- MODULE SilkPlcTrace ----------------------------
(***************************************************************************)
(* Binding of module SilkPlc to libopus (growth module G13).  Stateful:      *)
(* IOEnv.TRACE is the NDJSON log of harness/silkplc.c - every call the real  *)
(* decoder made of silk_decode_frame (with the silk_PLC / silk_CNG /         *)
(* silk_PLC_glue_frames calls inside it), silk_decoder_set_fs,               *)
(* silk_init_decoder and silk_reset_decoder, each with the state before and  *)
(* after.  TLC replays the machine on every call and prints                  *)
(*    "REJ <<line, class, what>>"                                            *)
(*  class "drift"  the recorded state is not the model's (SPEC-DRIFT)        *)
(*        "C09"    a clause of property C09 as far as it speaks about the    *)
(*                 speech layer's own concealment gains:                     *)
(*                 decay     after DecayFrames consecutive concealed frames  *)
(*                           the excitation gain (randScale_Q14) and the     *)
(*                           harmonic tap are at most 1/DecayDiv of their    *)
(*                           values after the first concealed frame, or at   *)
(*                           most FloorTap (Q14; a negative tap sticks at    *)
(*                           -20: floor rounding)                            *)
(*                           (the comfort noise that is ADDED is outside the *)
(*                           clause: findings/OBS_c09_silk_concealment_no_   *)
(*                           decay.c - it is asserted only through the model) *)
(*                 glue      the glue modifies a decoded frame only when the *)
(*                           previous frame of that channel was concealed    *)
(*                 recovery  a decoded frame ends the loss run (lossCnt = 0):*)
(*                           no comfort noise is added to later decoded frames*)
(*                 duration  a concealment / FEC / decode call returns the   *)
(*                           requested number of samples                     *)
(*        "C01"    lossCnt / pitch lag leave the range the concealment's     *)
(*                 buffers and tables need                                   *)
(*        "C12"    the state after silk_reset_decoder is not the state after *)
(*                 silk_init_decoder                                         *)
(***************************************************************************)
EXTENDS SilkPlc, Json, IOUtils, TLC

CONSTANTS DecayFrames, DecayDiv, FloorTap
VARIABLES cur, st, fresh, run, seen

vars == <<cur, st, fresh, run, seen>>
Tr == ndJsonDeserialize(IOEnv.TRACE)

Sub(a, lo, n) == [i \in 1..n |-> a[lo + i - 1]]
StOf(a) ==
  [lc |-> a[1], ps |-> a[2], ffar |-> a[3], lagPrev |-> a[4], fs |-> a[5], nb |-> a[6], sfl |-> a[7], frl |-> a[8], ord |-> a[9], ltpmem |-> a[10],
   pfs |-> a[11], pitch |-> a[12], B |-> Sub(a, 13, 5), lsc |-> a[18], g0 |-> a[19], g1 |-> a[20], rs |-> a[21], seed |-> <<a[22], a[23]>>,
   lfl |-> a[24], ce |-> a[25], ces |-> a[26], psfl |-> a[27], pnb |-> a[28],
   cfs |-> a[29], cg |-> a[30], cseed |-> <<a[31], a[32]>>, lpc |-> Sub(a, 33, 16), nlsf |-> Sub(a, 49, 16)]
Diff(a, b) == {f \in DOMAIN a : a[f] # b[f]}

Chans == 1..9
NoRun == [n |-> 0, r0 |-> 0, b0 |-> 0, lost |-> FALSE]
Rej(cls, what) == PrintT("REJ " \o ToString(<<cur, cls, what>>))
Say(ok, cls, what) == IF ok THEN TRUE ELSE Rej(cls, what)

\* ---- a silk_decode_frame call
Tags(e, pre, post, bg) ==
  (IF e.dec = 1 THEN {ToString(<<"good", e.sig>>)} ELSE {ToString(<<"lost", IF pre.lc = 0 THEN 0 ELSE 1, pre.ps>>)})
  \cup (IF e.lf = FLAG_LBRR THEN {ToString(<<"lbrr", e.lb>>)} ELSE {})
  \cup (IF pre.fs # pre.pfs THEN {"plc.reset"} ELSE {})
  \cup (IF pre.fs # pre.cfs THEN {"cng.reset"} ELSE {})
  \cup (IF e.dec = 1 /\ e.sig = 0 THEN {"cng.update"} ELSE {})
  \cup (IF e.dec = 1 /\ bg.lfl = 1 THEN {ToString(<<"glue", Fade(bg, e).on>>)} ELSE {})
  \cup (IF e.dec = 1 /\ bg.lfl = 1 /\ Fade(bg, e).on /\ ~GlueScaled(Fade(bg, e), e.gi[6]) THEN {"glue.break"} ELSE {})
  \cup (IF e.dec = 0 /\ post.lc >= DecayFrames THEN {"decay.judged"} ELSE {})
  \cup (IF e.dec = 0 /\ post.cg > 0 THEN {"lost.with.cng"} ELSE {})
  \cup (IF e.emu = 1 THEN {"fn"} ELSE {"situ"})

StepDf(e) ==
  \E ch \in {e.ch} :
  \E pre \in {StOf(e.pre)} :
  \E post \in {StOf(e.post)} :
  \E m \in {DecodeFrame(pre, e)} :
  \E bg \in {BeforeGlue(pre, e)} :
  \E r \in {run[ch]} :
  LET known == st[ch].has
      x == IF known THEN [st[ch].s EXCEPT !.nb = pre.nb] ELSE pre
      cont == ~known \/ pre = x \/ pre = SideRestart(x)
      shape == e.np = 1 /\ e.nc = 1 /\ e.ng = 1 /\ e.dec = (IF Decoded(e) THEN 1 ELSE 0)
      d == Diff(post, m)
      smp == {i \in 1..6 : e.gy[i] # GlueSample(bg, e, e.gi[i], e.gx[i])}
      touched == \E i \in 1..6 : e.gy[i] # e.gx[i]
      n1 == IF e.dec = 1 THEN 0 ELSE r.n + 1
      r1 == IF e.dec = 1 THEN [NoRun EXCEPT !.lost = FALSE]
            ELSE IF r.n = 0 THEN [n |-> 1, r0 |-> post.rs, b0 |-> post.B[3], lost |-> TRUE]
            ELSE [r EXCEPT !.n = n1, !.lost = TRUE]
      decay == (e.dec = 0 /\ n1 >= DecayFrames) => ((post.rs * DecayDiv <= r1.r0 \/ post.rs <= FloorTap) /\ (Abs(post.B[3]) * DecayDiv <= Abs(r1.b0) \/ Abs(post.B[3]) <= FloorTap))
      glue == (e.dec = 1 /\ touched) => r.lost
      recov == (e.dec = 1) => post.lc = 0
  IN
  /\ Say(cont, "drift", <<"continuity", IF known THEN Diff(pre, x) ELSE {}>>)
  /\ Say(shape, "drift", <<"callShape", e.np, e.nc, e.ng, e.dec>>)
  /\ Say(d = {}, "drift", <<"state", d>>)
  /\ Say(smp = {}, "drift", <<"glueSamples", smp>>)
  /\ Say(decay, "C09", <<"decay", n1, post.rs, r1.r0, post.B[3], r1.b0>>)
  /\ Say(glue, "C09", <<"glue", e.gx, e.gy>>)
  /\ Say(recov, "C09", <<"recovery", post.lc>>)
  /\ Say(RangeOK(post), "C01", <<"range", post.lc, post.pitch, post.fs>>)
  /\ st' = [st EXCEPT ![ch] = [has |-> TRUE, s |-> post]]
  /\ run' = [run EXCEPT ![ch] = r1]
  /\ seen' = IF d = {} /\ cont THEN seen \cup Tags(e, pre, post, bg) ELSE seen
  /\ UNCHANGED fresh

StepSetFs(e) ==
  \E ch \in {e.ch} :
  \E pre \in {StOf(e.pre)} :
  \E post \in {StOf(e.post)} :
  \E m \in {SetFs(pre, e.fs)} :
  LET known == st[ch].has
      x == IF known THEN [st[ch].s EXCEPT !.nb = pre.nb] ELSE pre
      cont == ~known \/ pre = x \/ pre = SideRestart(x)
      d == Diff(post, m)
      lgi == SetFsTouchesGainIndex(pre, e.fs) => e.lgi = 10 IN
  /\ Say(cont, "drift", <<"continuity", IF known THEN Diff(pre, x) ELSE {}>>)
  /\ Say(d = {} /\ e.r = 0 /\ lgi, "drift", <<"setfs", d, e.r, e.lgi>>)
  /\ st' = [st EXCEPT ![ch] = [has |-> TRUE, s |-> post]]
  /\ seen' = IF d = {} THEN seen \cup {ToString(<<"setfs", pre.fs # e.fs, pre.fs = e.fs /\ pre.nb * 5 * e.fs # pre.frl>>)} ELSE seen
  /\ UNCHANGED <<fresh, run>>

StepInit(e) ==
  \E ch \in {e.ch} :
  \E post \in {StOf(e.post)} :
  /\ Say(post = Fresh /\ e.r = 0, "drift", <<"fresh", Diff(post, Fresh)>>)
  /\ IF e.how = "reset" /\ fresh[ch].has
     THEN Say(post = fresh[ch].s, "C12", <<"resetEqualsFresh", Diff(post, fresh[ch].s)>>) ELSE TRUE
  /\ fresh' = IF e.how = "init" THEN [fresh EXCEPT ![ch] = [has |-> TRUE, s |-> post]] ELSE fresh
  /\ st' = [st EXCEPT ![ch] = [has |-> TRUE, s |-> post]]
  /\ run' = [run EXCEPT ![ch] = NoRun]
  /\ seen' = seen \cup {e.how}

StepCall(e) ==
  /\ Say(e.r = e.want, "C09", <<"duration", e.c, e.r, e.want>>)
  /\ seen' = seen \cup {"call." \o e.c}
  /\ UNCHANGED <<st, fresh, run>>

NoSt == [has |-> FALSE, s |-> Fresh]
Init == cur = 1 /\ st = [c \in Chans |-> NoSt] /\ fresh = [c \in Chans |-> NoSt] /\ run = [c \in Chans |-> NoRun] /\ seen = {}

Next ==
  /\ cur <= Len(Tr)
  /\ LET e == Tr[cur] IN
     CASE e.k = "new" -> st' = [c \in Chans |-> NoSt] /\ fresh' = [c \in Chans |-> NoSt] /\ run' = [c \in Chans |-> NoRun] /\ UNCHANGED seen
       [] e.k = "df" -> StepDf(e)
       [] e.k = "setfs" -> StepSetFs(e)
       [] e.k = "init" -> StepInit(e)
       [] e.k = "call" -> StepCall(e)
       [] OTHER -> UNCHANGED <<st, fresh, run, seen>>
  /\ cur' = cur + 1

Spec == Init /\ [][Next]_vars
Done == (cur > Len(Tr)) => PrintT("SEEN " \o ToString(seen))
=============================================================================
