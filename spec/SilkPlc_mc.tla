------------------------------ MODULE SilkPlc_mc ------------------------------
(***************************************************************************)
(* Exhaustive runs of module SilkPlc: the machine closed over signal types x *)
(* a grid of decoded parameters at the domain boundaries (the domains that    *)
(* C18 guarantees: lags in [2 fs, 18 fs], gains in [81920, 1686110208], LTP   *)
(* taps = codebook rows x 128, LTP scale from its table) x loss runs up to    *)
(* RunMax x rate / frame-length changes x resets.  TLC integers are 32-bit    *)
(* and overflow is fatal: a completed run is also the proof that no           *)
(* transcribed expression overflows 32 bits on these inputs (R6).             *)
(***************************************************************************)
EXTENDS SilkPlc, TLC

CONSTANTS RunMax,       \* longest run of concealed frames
          GoodMax,      \* decoded frames per behaviour
          Wide,         \* TRUE: the full first-frame grid
          FloorFrames,  \* frames after which the concealment's own gains have reached their floor
          DecayFrames, DecayDiv, FloorTap,
          FsSet, NbSet, \* rates / sub-frame counts explored
          GlueAt,       \* loss-run lengths after which a second decoded frame is explored
          AllStep       \* DecayAllOK: every value below 700 in magnitude and every AllStep-th value above
VARIABLES s, prev, act, ng, nsf, gh

vars == <<s, prev, act, ng, nsf, gh>>

GainGrid == {81920, 1048576, 2097151, 2097152, 8388609, 1686110208}
GainSmall == {81920, 8388609, 1686110208}
TapSums == {0, 256, 1536, 11392, 11520, 15488, 15616, 17024}      \* codebook row sums x 128 (2, 12, 89, 90, 121, 122, 133)
TapSmall == {0, 256, 11520, 17024}
Row(v) == <<0, 0, v, 0, 0>>
NegRow == <<0, 0 - 768, 15360, 7040, 0 - 4608>>                    \* the real row {0,-6,120,55,-36} x 128
ScaleTab == {15565, 12288, 8192}
IgGrid == {0, 4194303, 4194304, 33554432, 134217728, 134217729, 1073741824}
EnGrid == {0, 1, 127, 128, 1048576, 1073741824, 2147483647}
ShGrid == {0, 3, 9}
A1 == <<4039, 776, 0 - 1614, 0 - 473, 0 - 63, 88, 521, 843, 0 - 657, 144, 0 - 705, 182, 407, 186, 108, 0 - 685>>
PN == <<1485, 3021, 5223, 6189, 7755, 8524, 12266, 14242, 16385, 18423, 20657, 22881, 24000, 26000, 28000, 30000>>

Ltp(nb, last, others) == [i \in 1..20 |-> LET k == ((i - 1) \div 5) + 1 IN IF k > nb THEN 0 ELSE IF k = nb THEN last[((i - 1) % 5) + 1] ELSE others[((i - 1) % 5) + 1]]
Lags(fs, nb, last, others) == [k \in 1..4 |-> IF k > nb THEN 0 ELSE IF k = nb THEN last ELSE others]
Gn(nb, last, others) == [k \in 1..4 |-> IF k > nb THEN 0 ELSE IF k = nb THEN last ELSE others]
Frame(sig, pl, ltp, gn, lsc, ig, ge, gs, lf, lb, frl) ==
  [sig |-> sig, pl |-> pl, ltp |-> ltp, gn |-> gn, lsc |-> lsc, a1 |-> A1, pn |-> PN, ig |-> ig, cl |-> frl, ge |-> ge, gs |-> gs, gl |-> frl, lf |-> lf, lb |-> lb]

\* decoded frames: voiced (taps x lags x scale), unvoiced / inactive (gains).  wide: the full first-frame grid
VoicedIn(st, wide) ==
  { Frame(TYPE_VOICED, Lags(st.fs, st.nb, l1, l2), Ltp(st.nb, r1, r2), Gn(st.nb, g, g), lsc, 0, ge, 3, FLAG_NORMAL, 0, st.frl) :
      l1 \in {2 * st.fs, 18 * st.fs}, l2 \in (IF wide THEN {2 * st.fs, 18 * st.fs} ELSE {18 * st.fs}),
      r1 \in ({Row(v) : v \in (IF wide THEN TapSums ELSE {256, 17024})} \cup (IF wide THEN {NegRow} ELSE {})),
      r2 \in {Row(v) : v \in (IF wide THEN TapSmall ELSE {1536})},
      g \in (IF wide THEN GainSmall ELSE {1048576}), lsc \in (IF wide THEN ScaleTab ELSE {12288}),
      ge \in (IF wide THEN {1048576} ELSE {1048576, 2147483647}) }
PlainIn(st, wide) ==
  { Frame(sig, Zeros(4), Zeros(20), Gn(st.nb, g1, g2), 0, 0, ge, 3, FLAG_NORMAL, 0, st.frl) :
      sig \in {TYPE_NO_VOICE, TYPE_UNVOICED}, g1 \in (IF wide THEN GainGrid ELSE {8388609}), g2 \in (IF wide THEN GainSmall ELSE {81920}),
      ge \in (IF wide THEN {1048576} ELSE {1048576, 2147483647}) }
LostIn(st) ==
  { Frame(0, Zeros(4), Zeros(20), Zeros(4), 0, ig, 1048576, 3, FLAG_LOST, 0, st.frl) :
      ig \in (IF st.lc = 0 /\ st.ps # TYPE_VOICED THEN IgGrid ELSE {0}) }

NoAct == [k |-> "none", sig |-> 0, gain |-> 0, fade |-> [on |-> FALSE, ce |-> 0, gain |-> 65536, slope |-> 0], lfl |-> 0, ce1 |-> 0, gl |-> 0, cngadd |-> 0]
NoGh == [r0 |-> 0, b0 |-> 0, since |-> 0]

Init == s = Fresh /\ prev = Fresh /\ act = NoAct /\ ng = 0 /\ nsf = 0 /\ gh = NoGh

DoFrame(in, kind) ==
  LET bg == BeforeGlue(s, in)
      s1 == DecodeFrame(s, in)
      dec == Decoded(in)
      gain == IF dec /\ in.sig = TYPE_VOICED THEN LtpSearch(PlcEnter(s), in, 0, 0, 0)[1] ELSE 0 IN
  /\ s' = s1 /\ prev' = s
  /\ act' = [k |-> kind, sig |-> in.sig, gain |-> gain,
             fade |-> IF dec /\ bg.lfl = 1 THEN Fade(bg, in) ELSE NoAct.fade, lfl |-> IF dec THEN bg.lfl ELSE 0,
             ce1 |-> IF dec /\ bg.lfl = 1 /\ in.gs > bg.ces THEN Shr(bg.ce, in.gs - bg.ces) ELSE bg.ce, gl |-> in.gl,
             cngadd |-> IF dec THEN 0 ELSE CngAddGainQ16(bg)]
  /\ gh' = IF dec THEN [gh EXCEPT !.since = gh.since + 1]
           ELSE IF s.lc = 0 THEN [r0 |-> s1.rs, b0 |-> s1.B[3], since |-> gh.since + 1] ELSE [gh EXCEPT !.since = gh.since + 1]

Good == /\ s.fs > 0 /\ ng < GoodMax /\ (ng = 0 \/ s.lc \in GlueAt)
        /\ \E in \in VoicedIn(s, Wide /\ ng = 0) \cup PlainIn(s, Wide /\ ng = 0) : DoFrame(in, "good")
        /\ ng' = ng + 1 /\ UNCHANGED nsf
Lost == /\ s.fs > 0 /\ s.lc < (IF ng < GoodMax THEN RunMax ELSE 2) /\ ng > 0
        /\ \E in \in LostIn(s) : DoFrame(in, "lost")
        /\ UNCHANGED <<ng, nsf>>
\* an FEC request: a decoded frame when the next packet carries LBRR data for it, otherwise the concealment path
Lbrr == /\ s.fs > 0 /\ ng > 0 /\ ng < GoodMax /\ s.lc <= 2
        /\ \/ \E in \in LostIn(s) : DoFrame([in EXCEPT !.lf = FLAG_LBRR, !.lb = 0], "lbrr0")
           \/ \E in \in PlainIn(s, FALSE) \cup VoicedIn(s, FALSE) : DoFrame([in EXCEPT !.lf = FLAG_LBRR, !.lb = 1], "lbrr1")
        /\ ng' = ng + 1 /\ UNCHANGED nsf
SetFsA == /\ nsf < 2 /\ (nsf = 0 => s.fs = 0) /\ (nsf = 1 => (ng = 1 /\ s.lc <= 1))
          /\ \E fs \in FsSet, nb \in NbSet :
               /\ (nsf = 1 => (fs # s.fs \/ nb # s.nb))
               /\ s' = SetFs([s EXCEPT !.nb = nb], fs)
          /\ prev' = s /\ act' = [NoAct EXCEPT !.k = "setfs"] /\ nsf' = nsf + 1 /\ gh' = [gh EXCEPT !.since = 0] /\ UNCHANGED ng
ResetA == /\ ng > 0 /\ nsf = 1 /\ s.lc \in {0, 2}
          /\ s' = Fresh /\ prev' = s /\ act' = [NoAct EXCEPT !.k = "reset"] /\ nsf' = 0 /\ ng' = GoodMax - 1 /\ gh' = NoGh

Next == Good \/ Lost \/ Lbrr \/ SetFsA \/ ResetA
Spec == Init /\ [][Next]_vars

-----------------------------------------------------------------------------
Conc == act.k \in {"lost", "lbrr0"}
Deco == act.k \in {"good", "lbrr1"}

\* every attenuation table index in range; each factor below 1.0
AttTablesOK == AttIdx(s.lc) \in 1..NB_ATT /\ HarmGain(s.lc) < 32768 /\ RandGain0(s.lc, s.ps) < 32768

\* the concealment's own gains never grow along a loss run
NonIncreasing ==
  Conc => /\ \A j \in 1..5 : Abs(s.B[j]) <= Abs(prev.B[j])
          /\ s.rs >= 0
          /\ prev.lc > 0 => s.rs <= prev.rs
          /\ (prev.lc = 0 /\ (prev.B[3] >= 0 \/ prev.ps # TYPE_VOICED)) => s.rs <= 16384

\* the C09 decay clause exactly as spec/SilkPlcTrace.tla judges it - a theorem of the model, for EVERY parameter combination
DecayClause ==
  (Conc /\ s.lc >= DecayFrames) =>
     /\ (s.rs * DecayDiv <= gh.r0 \/ s.rs <= FloorTap)
     /\ (Abs(s.B[3]) * DecayDiv <= Abs(gh.b0) \/ Abs(s.B[3]) <= FloorTap)
\* ... and the floor: within FloorFrames frames the excitation gain is 0 and the harmonic tap 0 (a negative tap sticks at -20 or -19: (31130 * -20) >> 15 = -20)
FloorReached == (Conc /\ s.lc >= FloorFrames) => (s.rs = 0 /\ \A j \in 1..5 : s.B[j] \in (0 - 20)..0)

\* pitch lag, lossCnt: what the concealment's buffers need (also: no 32-bit overflow of pitchL_Q8 for any run length)
Ranges == (gh.since > 0) => RangeOK(s)
PitchMonotone == (Conc /\ prev.fs = prev.pfs) => (s.pitch >= prev.pitch /\ s.pitch <= MaxLagQ8(s.fs))

\* the tap collapse: one centre tap; for LTP_Gain_Q14 >= 359 it is limited to [0.7 - eps, 0.95]; below 359 (the codebook row
\* {0,0,2,0,0} in every searched sub-frame) scale_Q10 does not fit the 16 bits silk_SMULBB reads: see TruncationWitness
Collapse ==
  (Deco /\ act.sig = TYPE_VOICED) =>
     /\ s.B[1] = 0 /\ s.B[2] = 0 /\ s.B[4] = 0 /\ s.B[5] = 0
     /\ (act.gain = 0 => s.B[3] = 0)
     /\ (act.gain >= 359 /\ act.gain <= 32767) => (s.B[3] >= V_PITCH_GAIN_START_MIN - 16 /\ s.B[3] <= V_PITCH_GAIN_START_MAX)
     /\ (act.gain >= V_PITCH_GAIN_START_MIN /\ act.gain <= V_PITCH_GAIN_START_MAX) => s.B[3] = act.gain
TruncationWitness == ~(Deco /\ act.sig = TYPE_VOICED /\ act.gain \in 1..358 /\ s.B[3] < 0)      \* expected to be VIOLATED (witness cfg)

\* comfort-noise parameters change only on inactive, loss-free decoded frames (or by the lazy rate-change reset)
CngOnlyInactive ==
  (s.cg # prev.cg \/ s.nlsf # prev.nlsf) => ((Deco /\ act.sig = TYPE_NO_VOICE) \/ prev.fs # prev.cfs \/ act.k = "reset")
CngSeedOnlyLoss == (s.cseed # prev.cseed) => (Conc \/ prev.fs # prev.cfs \/ act.k = "reset")
CngGainRange == s.cg >= 0 /\ s.cg <= 1686110208 /\ act.cngadd >= 0

\* the glue ramp
GlueRamp ==
  (Deco /\ act.lfl = 1 /\ act.fade.on) =>
     /\ act.fade.gain >= 0
     /\ (act.ce1 >= 128 => act.fade.gain <= 66816)                       \* at most 1.0195 (one sample, then the loop ends)
     \* (gain_Q16 is 0 - the first sample is muted - when the concealed energy is 0 or more than 72 dB below the new frame's)
     /\ (act.fade.gain <= 65536 => act.fade.slope >= 0)
     /\ (act.fade.gain + act.gl * act.fade.slope >= 65536 \/ 3 * (65536 - act.fade.gain) < 4 * act.gl)
LflIffLoss == (gh.since > 0 /\ act.k \notin {"setfs", "reset"}) => ((s.lfl = 1) <=> (s.lc > 0))      \* DecOp's invariant
GlueClears == Deco => s.lfl = 0 /\ s.lc = 0 /\ s.ffar = 0 /\ s.ps = act.sig

\* rate / frame-length changes and resets
SetFsEffect ==
  act.k = "setfs" =>
     /\ s.sfl = 5 * s.fs /\ s.frl = s.nb * s.sfl
     /\ (prev.fs # s.fs) => (s.ffar = 1 /\ s.lagPrev = 100 /\ s.ps = TYPE_NO_VOICE /\ s.ord = OrderOf(s.fs) /\ s.ltpmem = 20 * s.fs)
     /\ (prev.fs = s.fs) => (s.ffar = prev.ffar /\ s.lagPrev = prev.lagPrev /\ s.ps = prev.ps)
     /\ s.lc = prev.lc /\ s.pitch = prev.pitch /\ s.B = prev.B /\ s.rs = prev.rs /\ s.cg = prev.cg /\ s.lfl = prev.lfl /\ s.pfs = prev.pfs /\ s.cfs = prev.cfs
LazyResets == (gh.since > 0) => (s.pfs = s.fs /\ s.cfs = s.fs)
PlcResetEffect == (act.k \in {"lost", "lbrr0"} /\ prev.fs # prev.pfs /\ prev.lc = 0) => TRUE

\* the composed generator equals the iterated one (80..320 applications of silk_RAND)
ASSUME \A n \in FrameLens : \A x \in {<<0, 0>>, <<1, 0>>, <<0, 1>>, <<65535, 65535>>, <<48, 30848>>} : RandN(x, n) = RandIter(x, n)
ASSUME Rand1(<<0, 0>>) = RAND_INC /\ Rand1(<<0, 1>>) = Add32(RAND_INC, RAND_MULT)

\* ---- stateless theorems over grids (evaluated once)
\* the glue ramp: gain_Q16 in [0, 1.0195] whenever the concealed energy is at least 128 (below that the integer quotient is
\* coarse: up to 2^29, but then every sample of the frame is tiny), non-negative slope unless gain > 1, and the ramp ends within
\* the frame unless it starts within 4/3 * length / 65536 of 1.0.  gain_Q16 = 0 (first sample muted) when the concealed energy
\* is 0 or more than 72 dB below the new frame's.
GlueSt(ce, ces) == [Fresh EXCEPT !.lfl = 1, !.ce = ce, !.ces = ces]
GlueGridOK ==
  \A ce \in EnGrid, ces \in ShGrid, ge \in EnGrid, gs \in ShGrid, gl \in FrameLens :
    LET f == Fade(GlueSt(ce, ces), [ge |-> ge, gs |-> gs, gl |-> gl])
        ce1 == IF gs > ces THEN Shr(ce, gs - ces) ELSE ce IN
    f.on => /\ f.gain >= 0
            /\ (ce1 >= 128 => f.gain <= 66816)
            /\ f.gain <= 370736
            /\ (f.gain <= 65536 => f.slope >= 0)
            /\ (f.gain + gl * f.slope >= 65536 \/ 3 * (65536 - f.gain) < 4 * gl)
ASSUME GlueGridOK
\* the comfort noise that is added: no overflow, never above the smoothed estimate by more than silk_SQRT_APPROX's error
CngAddGridOK ==
  \A rs \in {0, 1, 15, 3277, 16384, 20234}, g1 \in GainGrid, cg \in GainGrid \cup {0, 8388608} :
    LET a == CngAddGainQ16([Fresh EXCEPT !.rs = rs, !.g1 = g1, !.cg = cg]) IN
    /\ a >= 0 /\ a \div 16 <= (cg \div 16) + (cg \div 160) + 4096
    \* the floor of speech-layer concealment (the recorded observation's antecedent): once the concealment's own excitation
    \* gain is 0 the added comfort noise has the smoothed gain of the decoded inactive frames, within silk_SQRT_APPROX's error
    /\ (rs = 0 /\ cg >= 81920) => a \div 16 >= (cg \div 16) - (cg \div 100)
ASSUME CngAddGridOK

\* the decay clause for EVERY value the gains can have after the first concealed frame (not only the reachable ones): 19 further
\* frames of at least 2 sub-frames each at the saturated table entries
RECURSIVE AttN(_, _, _)
AttN(v, g, n) == IF n = 0 THEN v ELSE AttN(S16(Shr(SMULBB(g, v), 15)), g, n - 1)
DecaySteps == 2 * (DecayFrames - 1)
DecayAllOK ==
  /\ \A b \in ((0 - 700)..700) \cup {k * AllStep : k \in ((0 - 32768) \div AllStep)..(32767 \div AllStep)} : LET e == AttN(b, HARM_ATT[2], DecaySteps) IN Abs(e) * DecayDiv <= Abs(b) \/ Abs(e) <= FloorTap
  /\ \A r \in (0..700) \cup {k * AllStep : k \in 0..(32767 \div AllStep)} : \A g \in {RAND_ATT_V[2], RAND_ATT_UV[2]} : LET e == AttN(r, g, DecaySteps) IN e * DecayDiv <= r \/ e <= FloorTap
ASSUME DecayAllOK

Bound == s.lc <= RunMax
=============================================================================
