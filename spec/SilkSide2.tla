----------------------------- MODULE SilkSide2 -----------------------------
(***************************************************************************)
(* SILK side information that module SilkParams (C18) does not cover:       *)
(* the stereo mid/side predictors (dequantiser, the encoder's search, the   *)
(* 8 ms interpolation and the two-sample history of silk_stereo_MS_to_LR),  *)
(* the LTP (pitch filter) codebooks, the LTP scale table and the            *)
(* cumulative-gain arithmetic of silk_quant_LTP_gains (silk_log2lin /       *)
(* silk_lin2log transcribed exactly).                                       *)
(*                                                                         *)
(* Exact integer model: every intermediate stays below 2^31 (TLC integers   *)
(* are 32-bit, overflow is fatal); >> is floor division; (opus_int16) casts *)
(* are S16.  Source lines refer to /repo/silk.                              *)
(*                                                                         *)
(* The table words the operators compute with are read from a JSON file the *)
(* harness exports from the BUILT library at check time (IOEnv.S2TAB); the  *)
(* RFC 6716 values are kept below as *Ref and compared word for word.       *)
(***************************************************************************)
EXTENDS Integers, Sequences, FiniteSets, Json, IOUtils, TLC

S2Tab == ndJsonDeserialize(IOEnv.S2TAB)[1]

-----------------------------------------------------------------------------
(* fixed-point helpers (same definitions as SilkParams) *)
Min2(a, b) == IF a < b THEN a ELSE b
Max2(a, b) == IF a > b THEN a ELSE b
Clamp(x, lo, hi) == IF x < lo THEN lo ELSE IF x > hi THEN hi ELSE x
Abs(x) == IF x < 0 THEN -x ELSE x
S16(x) == ((x + 32768) % 65536) - 32768          \* (opus_int16) cast
Sat16(x) == Clamp(x, -32768, 32767)
Int16Set == (-32768)..32767
\* silk_SMULWB(a32, b32) = (a32 * (int16)b32) >> 16, product split so that it stays below 2^31
SMULWB(a, b) == LET bb == S16(b)  ah == a \div 65536  al == a % 65536 IN ah * bb + ((al * bb) \div 65536)
SMLAWB(acc, a, b) == acc + SMULWB(a, b)
SMULBB(a, b) == S16(a) * S16(b)
\* silk_RSHIFT_ROUND(a, s), s >= 2: ((a >> (s-1)) + 1) >> 1
RShiftRound(a, s) == IF s = 1 THEN (a \div 2) + (a % 2) ELSE ((a \div (2 ^ (s - 1))) + 1) \div 2
Only(S) == CHOOSE y \in S : TRUE
RECURSIVE SumSeq(_, _, _)
SumSeq(s, a, b) == IF a > b THEN 0 ELSE s[a] + SumSeq(s, a + 1, b)
RECURSIVE SumAbsSeq(_, _, _)
SumAbsSeq(s, a, b) == IF a > b THEN 0 ELSE Abs(s[a]) + SumAbsSeq(s, a + 1, b)
Int32Max == 2147483647

-----------------------------------------------------------------------------
(* RFC 6716 table values (section 4.2.7.1 and 4.2.7.6.2/3), kept for the word-for-word comparison *)
SPRef == << -13732, -10050, -8266, -7526, -6500, -5000, -2950, -820, 820, 2950, 5000, 6500, 7526, 8266, 10050, 13732 >>
VQRef0 == << 4,6,24,7,5, 0,0,2,0,0, 12,28,41,13,-4, -9,15,42,25,14, 1,-2,62,41,-9, -10,37,65,-4,3, -6,4,66,7,-8, 16,14,38,-3,33 >>
VQRef1 == << 13,22,39,23,12, -1,36,64,27,-6, -7,10,55,43,17, 1,1,8,1,1, 6,-11,74,53,-9, -12,55,76,-12,8, -3,3,93,27,-4, 26,39,59,3,-8,
             2,0,77,11,9, -8,22,44,-6,7, 40,9,26,3,9, -7,20,101,-7,4, 3,-8,42,26,0, -15,33,68,2,23, -2,55,46,-2,15, 3,-1,21,16,41 >>
VQRef2 == << -6,27,61,39,5, -11,42,88,4,1, -2,60,65,6,-4, -1,-5,73,56,1, -9,19,94,29,-9, 0,12,99,6,4, 8,-19,102,46,-13, 3,2,13,3,2,
             9,-21,84,72,-18, -11,46,104,-22,8, 18,38,48,23,0, -16,70,83,-21,11, 5,-11,117,22,-8, -6,23,117,-12,3, 3,-8,95,28,4, -10,15,77,60,-15,
             -1,4,124,2,-4, 3,38,84,24,-25, 2,13,42,13,31, 21,-4,56,46,-1, -1,35,79,-13,19, -7,65,88,-9,-14, 20,4,81,49,-29, 20,0,75,3,-17,
             5,-9,44,92,-8, 1,-3,22,69,31, -6,95,41,-12,5, 39,67,16,-4,1, 0,-6,120,55,-36, -13,44,122,4,-24, 81,5,11,3,7, 2,0,9,10,88 >>
VGRef0 == << 46, 2, 90, 87, 93, 91, 82, 98 >>
VGRef1 == << 109, 120, 118, 12, 113, 115, 117, 119, 99, 59, 87, 111, 63, 111, 112, 80 >>
VGRef2 == << 126, 124, 125, 124, 129, 121, 126, 23, 132, 127, 127, 127, 126, 127, 122, 133, 130, 134, 101, 118, 119, 145, 126, 86, 124, 120, 123, 119, 170, 173, 107, 109 >>
VCRef0 == << 71, 56, 43, 30, 21, 12, 6, 0 >>
VCRef1 == << 199, 165, 144, 124, 109, 96, 84, 71, 61, 51, 42, 32, 23, 15, 8, 0 >>
VCRef2 == << 241, 225, 211, 199, 187, 175, 164, 153, 142, 132, 123, 114, 105, 96, 88, 80, 72, 64, 57, 50, 44, 38, 33, 29, 24, 20, 16, 12, 9, 5, 2, 0 >>
PerRef == << 179, 99, 0 >>
LsiRef == << 128, 64, 0 >>
LSRef  == << 15565, 12288, 8192 >>
SizesRef == << 8, 16, 32 >>
SpjRef == << 249, 247, 246, 245, 244, 234, 210, 202, 201, 200, 197, 174, 82, 59, 56, 55, 54, 46, 22, 12, 11, 10, 9, 7, 0 >>
\* constants of the arithmetic: STEREO_QUANT_SUB_STEPS, STEREO_INTERP_LEN_MS, LTP_ORDER, SILK_FIX_CONST(250/6, 7), (0.4, 7), (7, 7), (0.5/5, 16)
ConstRef == [substeps |-> 5, interp_ms |-> 8, ltp_order |-> 5, maxsum |-> 5333, safety |-> 51, seven |-> 896, halfstep |-> 6554]

\* the tables of the built library
SP == S2Tab.sp
NbCbk == 3
VQ(k) == IF k = 0 THEN S2Tab.vq0 ELSE IF k = 1 THEN S2Tab.vq1 ELSE S2Tab.vq2          \* flattened [size][5], Q7
VG(k) == IF k = 0 THEN S2Tab.vg0 ELSE IF k = 1 THEN S2Tab.vg1 ELSE S2Tab.vg2          \* max |frequency response|, Q7
VC(k) == IF k = 0 THEN S2Tab.vc0 ELSE IF k = 1 THEN S2Tab.vc1 ELSE S2Tab.vc2          \* inverse CDF of the index
VQRef(k) == IF k = 0 THEN VQRef0 ELSE IF k = 1 THEN VQRef1 ELSE VQRef2
VGRef(k) == IF k = 0 THEN VGRef0 ELSE IF k = 1 THEN VGRef1 ELSE VGRef2
VCRef(k) == IF k = 0 THEN VCRef0 ELSE IF k = 1 THEN VCRef1 ELSE VCRef2
CbkSize(k) == S2Tab.sizes[k + 1]
LS == S2Tab.ls
SubSteps == S2Tab.substeps
InterpMs == S2Tab.interp_ms
LtpOrder == S2Tab.ltp_order
MaxSumQ7 == S2Tab.maxsum
SafetyQ7 == S2Tab.safety
SevenQ7 == S2Tab.seven
HalfStepQ16 == S2Tab.halfstep

\* names of the tables whose words differ from the RFC copy (empty on the pinned tree)
TableDiff ==
  LET D(n, differs) == IF differs THEN {n} ELSE {} IN
  D("sp", S2Tab.sp # SPRef) \cup D("spj", S2Tab.spj # SpjRef) \cup D("sizes", S2Tab.sizes # SizesRef)
  \cup D("vq0", S2Tab.vq0 # VQRef0) \cup D("vq1", S2Tab.vq1 # VQRef1) \cup D("vq2", S2Tab.vq2 # VQRef2)
  \cup D("vg0", S2Tab.vg0 # VGRef0) \cup D("vg1", S2Tab.vg1 # VGRef1) \cup D("vg2", S2Tab.vg2 # VGRef2)
  \cup D("vc0", S2Tab.vc0 # VCRef0) \cup D("vc1", S2Tab.vc1 # VCRef1) \cup D("vc2", S2Tab.vc2 # VCRef2)
  \cup D("per", S2Tab.per # PerRef) \cup D("lsi", S2Tab.lsi # LsiRef) \cup D("ls", S2Tab.ls # LSRef)
  \cup D("const", \E f \in DOMAIN ConstRef : S2Tab[f] # ConstRef[f])

-----------------------------------------------------------------------------
(* (a) stereo predictor dequantiser: stereo_decode_pred.c:47-65.  An index triple is (ix0 in 0..2, ix1 in 0..4, ix2 in 0..4);  *)
(* the pair is coded as n = 5*ix[0][2] + ix[1][2] < 25, then ix0 and ix1 of each.  Flattened here: <<a0,a1,a2,b0,b1,b2>>.       *)
NTab == 16                                   \* STEREO_QUANT_TAB_SIZE
NInterval == NTab - 1
NLevel == NInterval * SubSteps               \* 75 reconstruction levels
StereoIxOK(ix) == /\ Len(ix) = 6 /\ ix[1] \in 0..2 /\ ix[4] \in 0..2
                  /\ ix[2] \in 0..(SubSteps - 1) /\ ix[5] \in 0..(SubSteps - 1) /\ ix[3] \in 0..4 /\ ix[6] \in 0..4
JointIndex(ix) == 5 * ix[3] + ix[6]
\* level j of interval i (i in 0..14, j in 0..4): low + step * (2j+1), step = SMULWB(hi - low, 0.5/5 in Q16); silk_SMLABB casts both factors
StepOf(i) == SMULWB(SP[i + 2] - SP[i + 1], HalfStepQ16)
StereoLevel(i, j) == SP[i + 1] + S16(StepOf(i)) * S16(2 * j + 1)
LevelOfM(m) == StereoLevel(m \div SubSteps, m % SubSteps)            \* m in 0..74
LevelTab == [m \in 0..(NLevel - 1) |-> LevelOfM(m)]                  \* cached
StereoDecode1(i0, i1, i2) == StereoLevel(i0 + 3 * i2, i1)
StereoDecodePred(ix) ==
  LET p0 == StereoDecode1(ix[1], ix[2], ix[3])  p1 == StereoDecode1(ix[4], ix[5], ix[6]) IN << p0 - p1, p1 >>      \* line 63: pred[0] -= pred[1]

(* (b) the encoder's search: stereo_quant_pred.c:44-70.  Levels are visited in increasing order and the search stops at the  *)
(* first level that is not strictly better ("error increasing, so we're past the optimum").                                 *)
RECURSIVE QSearch(_, _, _, _)
QSearch(p, m, errmin, best) ==
  IF m = NLevel THEN best
  ELSE LET err == Abs(p - LevelTab[m]) IN
       IF err < errmin THEN QSearch(p, m + 1, err, m) ELSE best
StereoQuant1(p) ==
  LET m == QSearch(p, 0, Int32Max, 0)
      i == m \div SubSteps
      i2 == i \div 3
  IN [m |-> m, ix |-> << i - 3 * i2, m % SubSteps, i2 >>, q |-> LevelTab[m]]
StereoQuantPred(pp) ==
  LET a == StereoQuant1(pp[1])  b == StereoQuant1(pp[2]) IN [ix |-> a.ix \o b.ix, q |-> << a.q - b.q, b.q >>]
\* inputs for which pred - level stays inside 32 bits for every level
QuantInputSafe(p) == p >= -(Int32Max - 16384) /\ p <= Int32Max - 16384

-----------------------------------------------------------------------------
(* (c) predictor interpolation of silk_stereo_MS_to_LR (stereo_MS_to_LR.c:54-74) and of the encoder's LR_to_MS (same lines    *)
(* negated): over the first 8 ms the predictor moves from pred_prev_Q13 by a constant rounded increment per sample, afterwards *)
(* it IS the new value.  silk_SMULBB casts the difference to 16 bits.                                                        *)
InterpLen(fs) == InterpMs * fs
DenomQ16(fs) == 65536 \div InterpLen(fs)
InterpDelta(prev, new, fs) == RShiftRound(SMULBB(new - prev, DenomQ16(fs)), 16)
\* predictor used for output sample n (0-based)
PredAt(prev, new, dlt, fs, n) == IF n < InterpLen(fs) THEN prev + (n + 1) * dlt ELSE new
RampEnd(prev, new, fs) == prev + InterpLen(fs) * InterpDelta(prev, new, fs)

(* the whole function on one frame.  X1 = sMid \o mid input (fl+2 samples), X2 = sSide \o side input; sample n in 0..fl-1.     *)
MsSide(X1, X2, p0, p1, n) ==
  LET sum == (X1[n + 1] + X1[n + 3] + 2 * X1[n + 2]) * 512                          \* Q11
      a == SMLAWB(X2[n + 2] * 256, sum, p0)                                          \* Q8
      b == SMLAWB(a, X1[n + 2] * 2048, p1)
  IN Sat16(RShiftRound(b, 8))
MsToLr(pp, sm, ss, pr, fs, fl, x1, x2) ==
  LET X1 == sm \o x1
      X2 == ss \o x2
      d0 == InterpDelta(pp[1], pr[1], fs)
      d1 == InterpDelta(pp[2], pr[2], fs)
      side == [n \in 0..(fl - 1) |-> MsSide(X1, X2, PredAt(pp[1], pr[1], d0, fs, n), PredAt(pp[2], pr[2], d1, fs, n), n)]
  IN [o1 |-> [k \in 1..fl |-> Sat16(X1[k + 1] + side[k - 1])],                      \* what the function leaves in x1[1..fl], x2[1..fl]
      o2 |-> [k \in 1..fl |-> Sat16(X1[k + 1] - side[k - 1])],
      npp |-> << S16(pr[1]), S16(pr[2]) >>,                                          \* pred_prev_Q13 := pred_Q13 (16-bit field)
      nsm |-> << X1[fl + 1], X1[fl + 2] >>, nss |-> << X2[fl + 1], X2[fl + 2] >>]

(* the encoder's counterpart, silk_stereo_LR_to_MS (stereo_LR_to_MS.c): basic mid/side (:63-69), history (:71-75), and the      *)
(* interpolated prediction that is SUBTRACTED from the side signal while the width is cross-faded (:197-224).  Which predictors  *)
(* and which width the encoder settles on (:93-181) is its own business: they enter here as the state it leaves behind            *)
(* (pq = pred_prev_Q13 after the call, wq = width_prev_Q14 after the call).  l, r: fl+2 input samples starting at x[-2].          *)
LrSide(M, S, p0, p1, w, n) ==
  LET sum == (M[n + 1] + M[n + 3] + 2 * M[n + 2]) * 512
      a == SMLAWB(SMULWB(w, S[n + 2]), sum, p0)
      b == SMLAWB(a, M[n + 2] * 2048, p1)
  IN Sat16(RShiftRound(b, 8))
LrToMs(pp, sm, ss, wp, pq, wq, fs, fl, xl, xr) ==
  LET midraw == [k \in 1..(fl + 2) |-> S16(RShiftRound(xl[k] + xr[k], 1))]
      sideraw == [k \in 1..(fl + 2) |-> Sat16(RShiftRound(xl[k] - xr[k], 1))]
      M == [k \in 1..(fl + 2) |-> IF k <= 2 THEN sm[k] ELSE midraw[k]]
      S == [k \in 1..(fl + 2) |-> IF k <= 2 THEN ss[k] ELSE sideraw[k]]
      N == InterpLen(fs)
      d0 == -InterpDelta(pp[1], pq[1], fs)
      d1 == -InterpDelta(pp[2], pq[2], fs)
      dw == SMULWB(wq - wp, DenomQ16(fs)) * 1024
  IN [mid |-> M,
      res |-> [k \in 1..fl |-> LET n == k - 1 IN
                 IF n < N THEN LrSide(M, S, -pp[1] + (n + 1) * d0, -pp[2] + (n + 1) * d1, wp * 1024 + (n + 1) * dw, n)
                 ELSE LrSide(M, S, -pq[1], -pq[2], wq * 1024, n)],
      nsm |-> << M[fl + 1], M[fl + 2] >>, nss |-> << S[fl + 1], S[fl + 2] >>]

-----------------------------------------------------------------------------
(* (d) LTP: decode_parameters.c:52-80 *)
LtpIdxOK(per, idx) == per \in 0..(NbCbk - 1) /\ \A k \in 1..Len(idx) : idx[k] \in 0..(CbkSize(per) - 1)
LtpVec(per, i) == [t \in 1..LtpOrder |-> VQ(per)[LtpOrder * i + t]]
LtpCoefQ14(per, idx) == [m \in 1..(LtpOrder * Len(idx)) |-> VQ(per)[LtpOrder * idx[((m - 1) \div LtpOrder) + 1] + ((m - 1) % LtpOrder) + 1] * 128]
LtpScaleQ14(lsc) == LS[lsc + 1]
Zeros(n) == [i \in 1..n |-> 0]

(* silk_log2lin (log2lin.c:36-58) and silk_lin2log (lin2log.c:36-45) *)
Log2LinPoly(f) == f + SMULWB(SMULBB(f, 128 - f), -174)
\* the two summands of the result, so that the caller can check the sum against 2^31 before forming it
Log2LinParts(x) ==
  LET out == 2 ^ (x \div 128)  t == Log2LinPoly(x % 128) IN
  IF x < 2048 THEN << out, (out * t) \div 128 >> ELSE << out, (out \div 128) * t >>
Log2LinSafe(x) == (x < 0) \/ (x >= 3967) \/ LET p == Log2LinParts(x) IN p[2] >= 0 /\ p[2] <= Int32Max - p[1]
Log2Lin(x) == IF x < 0 THEN 0 ELSE IF x >= 3967 THEN Int32Max ELSE LET p == Log2LinParts(x) IN p[1] + p[2]
RECURSIVE MsbFrom(_, _)
MsbFrom(x, b) == IF 2 ^ b <= x THEN b ELSE MsbFrom(x, b - 1)
Msb(x) == MsbFrom(x, 30)                                                             \* x in 1..2^31-1
Lin2Log(x) ==
  LET b == Msb(x)
      f == IF b >= 7 THEN (x \div (2 ^ (b - 7))) % 128 ELSE (x * (2 ^ (7 - b))) % 128
  IN f + SMULWB(f * (128 - f), 179) + b * 128

(* the cumulative-gain arithmetic of silk_quant_LTP_gains (quant_LTP_gains.c:82-83 and :103-104) *)
MaxGainArg(sum) == (MaxSumQ7 - sum) + SevenQ7
MaxGainQ7(sum) == Log2Lin(MaxGainArg(sum)) - SafetyQ7
SumStep(sum, g) == Max2(0, sum + Lin2Log(SafetyQ7 + g) - SevenQ7)
RECURSIVE SumChain(_, _, _, _)
SumChain(sum, per, idx, k) == IF k > Len(idx) THEN sum ELSE SumChain(SumStep(sum, VG(per)[idx[k] + 1]), per, idx, k + 1)
\* silk_VQ_WMat_EC's penalty term for a vector of gain g (VQ_WMat_EC.c:78): stays inside 32 bits
PenaltyQ15(g, maxgain) == Max2(g - maxgain, 0) * 2048
=============================================================================
