--------------------------- MODULE SilkSide2Trace ---------------------------
(* Validation of recorded calls of the real stereo-predictor / LTP side-information functions and of whole-codec packets    *)
(* (hx_silkside2) against module SilkSide2.  Stateless: one initial state per recorded case, every event carries the state   *)
(* it started from.  Event kinds: sd sq ms lr dp lq l2 ln wc (wc_err carries no claim).                                        *)
(*                                                                                                                          *)
(*   CaseOK   clauses that property C18 states: decoded speech-layer parameters equal the normative dequantiser's and are   *)
(*            in range; what the encoder keeps as "quantised" is what the decoder reconstructs    (rejection = VIOLATION)   *)
(*   ModelOK  how the implementation behaves beyond that: which indices the encoder's searches choose, the synthesis        *)
(*            samples of silk_stereo_MS_to_LR, silk_log2lin / silk_lin2log, the cumulative-gain bookkeeping, the decoder's  *)
(*            state rules on loss / mono packets                                                 (rejection = SPEC-DRIFT)   *)
EXTENDS SilkSide2
VARIABLE l

Tr == ndJsonDeserialize(IOEnv.TRACE)
IsBit(x) == x \in {0, 1}
Slice(s, a, n) == [k \in 1..n |-> s[a + k - 1]]

-----------------------------------------------------------------------------
\* silk_stereo_encode_pred -> bytes -> silk_stereo_decode_pred
PredInRange(p) == p[2] > SP[1] /\ p[2] < SP[NTab] /\ p[1] \in Int16Set /\ Abs(p[1]) < 2 * SP[NTab]
SdOK(e) ==
  /\ StereoIxOK(e.ix)
  /\ e.p = StereoDecodePred(e.ix)
  /\ PredInRange(e.p)
  /\ e.nb > 0                                   \* the decoder consumed exactly the bits the encoder wrote

\* silk_stereo_quant_pred, then its indices through the coder and silk_stereo_decode_pred
SqOK(e) ==
  /\ StereoIxOK(e.ix)                            \* codable
  /\ e.okd = 1
  /\ e.q = e.d                                   \* the value written back is the value the real decoder reconstructs
  /\ e.d = StereoDecodePred(e.ix)
  /\ PredInRange(e.d)
SqModel(e) ==
  /\ QuantInputSafe(e.in[1]) /\ QuantInputSafe(e.in[2])
  /\ LET r == StereoQuantPred(e.in) IN r.ix = e.ix /\ r.q = e.q

\* silk_stereo_MS_to_LR
MsModel(e) ==
  /\ e.fs \in {8, 12, 16} /\ e.fl \in {10 * e.fs, 20 * e.fs} /\ Len(e.x1) = e.fl /\ Len(e.x2) = e.fl
  /\ LET r == MsToLr(e.pp, e.sm, e.ss, e.pr, e.fs, e.fl, e.x1, e.x2) IN
       /\ e.npp = r.npp /\ e.nsm = r.nsm /\ e.nss = r.nss
       /\ e.o1 = r.o1 /\ e.o2 = r.o2
\* the part of it that is parameter state: pred_prev_Q13 := pred_Q13
MsOK(e) == e.npp = << S16(e.pr[1]), S16(e.pr[2]) >>

\* silk_stereo_LR_to_MS (encoder).  CaseOK part: what it quantised is codable and the predictors it goes on with are the dequantised ones
\* (or zero when it collapses the width).  ModelOK part: history, mid signal, residual side signal, width / mid-only bookkeeping
LrOK(e) ==
  /\ StereoIxOK(e.ix) /\ IsBit(e.mo)
  /\ (e.nw # 0) => e.npp = StereoDecodePred(e.ix)
  /\ (e.nw = 0) => e.npp = << 0, 0 >>
LrModel(e) ==
  /\ e.fs \in {8, 12, 16} /\ e.fl \in {10 * e.fs, 20 * e.fs} /\ Len(e.x1) = e.fl + 2 /\ Len(e.x2) = e.fl + 2
  /\ LET r == LrToMs(e.pp, e.sm, e.ss, e.wp, e.npp, e.nw, e.fs, e.fl, e.x1, e.x2) IN
       /\ e.o1 = r.mid /\ e.o2 = r.res /\ e.nsm = r.nsm /\ e.nss = r.nss
  /\ e.nw \in {0, 16384, e.nsw} /\ (e.nw = 16384 => e.nsw > 15565) /\ (e.nw \notin {0, 16384} => e.nsw <= 15565)
  /\ (e.tomono = 1) => e.nw = 0 /\ e.mo = 0 /\ e.ix = << 1, 2, 2, 1, 2, 2 >>           \* zero predictors quantise to the level that is exactly 0 (interval 7, sub-step 2)
  /\ (e.mo = 1) => e.nw = 0 /\ e.nssl = 10000 /\ e.wp = 0 /\ e.rates[2] = 0
  /\ (e.mo = 0) => e.nssl < 5 * e.fs /\ e.rates[2] >= 1
  /\ e.rates[1] >= 1

\* silk_decode_parameters, LTP part
LtpDecoded(st, per, idx, lsc, B, sc, pa) ==
  IF st = 2
  THEN /\ LtpIdxOK(per, idx) /\ lsc \in 0..2
       /\ B = LtpCoefQ14(per, idx)
       /\ \A m \in 1..Len(B) : B[m] \in (-16384)..16256
       /\ sc = LtpScaleQ14(lsc) /\ sc > 0 /\ sc <= 16384
       /\ pa = per
  ELSE B = Zeros(Len(B)) /\ sc = 0 /\ pa = 0
DpOK(e) ==
  /\ e.n \in {2, 4} /\ Len(e.idx) = e.n /\ Len(e.B) = LtpOrder * e.n /\ e.st \in 0..2
  /\ LtpDecoded(e.st, e.per, e.idx, e.lsc, e.B, e.sc, e.pa)

\* silk_quant_LTP_gains (integer) and silk_quant_LTP_gains_FLP (the float build's wrapper) on the same correlations,
\* then silk_decode_parameters on the emitted indices
LqOK(e) ==
  /\ e.n \in {2, 4} /\ Len(e.ci) = e.n
  /\ LtpIdxOK(e.per, e.ci)                                      \* codable: PERIndex in 0..2, index below 8 / 16 / 32
  /\ e.B = LtpCoefQ14(e.per, e.ci)                              \* the quantised taps the encoder goes on with ...
  /\ e.okd = 1 /\ e.Bd = e.B                                    \* ... are the taps the real decoder derives from the indices
  /\ e.perf = e.per /\ e.cf = e.ci /\ e.Bf = e.B                \* the float wrapper hands on the same
LqModel(e) ==
  /\ e.si >= 0
  /\ e.so = SumChain(e.si, e.per, e.ci, 1) /\ e.sf = e.so       \* cumulative gain: the chain of the chosen vectors' effective gains
  /\ e.pgf = e.pg

L2Model(e) == e.yh * 65536 + e.yl = Log2Lin(e.x)
LnModel(e) == e.x >= 1 /\ e.y = Lin2Log(e.x)

-----------------------------------------------------------------------------
\* whole codec: stereo SILK-only / hybrid opus_encode -> opus_decode with channel switches and losses
TocConfig(t) == t \div 8
TocStereo(t) == (t \div 4) % 2
\* the claim is made for packets that were delivered, carry one speech/hybrid frame with content (not the TOC-only packet of a busted
\* budget), were coded with two internal channels and decoded that way, and on which both range coders ended in the same state
WcClaim(e) ==
  /\ e.lost = 0 /\ e.nfr = 1 /\ e.fsz >= 2 /\ e.er = e.dr
  /\ TocConfig(e.toc) < 16 /\ TocStereo(e.toc) = 1
  /\ e.enci = 2 /\ e.dnci = 2 /\ e.dnapi = 2
ChanOK(E, D, nb) ==
  /\ D.st = E.st /\ D.st \in 0..2
  /\ Len(D.ltp) = nb /\ Len(D.B) = LtpOrder * nb
  /\ (D.st = 2) => D.per = E.per /\ D.ltp = E.ltp /\ D.lsc = E.lsc
  /\ LtpDecoded(D.st, D.per, D.ltp, D.lsc, D.B, D.sc, D.pa)
WcOK(e) ==
  WcClaim(e) =>
    LET last == e.nf
        ix == Slice(e.eix, 6 * (last - 1) + 1, 6) IN
    /\ e.nf \in 1..3 /\ e.efs \in {8, 12, 16} /\ e.dfs = e.efs /\ e.dnb = e.enb /\ e.enb \in {2, 4}
    /\ \A f \in 1..e.nf : StereoIxOK(Slice(e.eix, 6 * (f - 1) + 1, 6)) /\ IsBit(e.emid[f])
    /\ e.dppa = StereoDecodePred(ix)                                \* decoder's predictors = the dequantiser on the coded indices
    /\ PredInRange(e.dppa)
    /\ e.pdoma = e.emid[last]                                       \* mid-only flag of the last frame
    /\ (e.ew # 0) => e.epp = e.dppa                                 \* encoder's write-back (kept when it codes a side signal) = decoder's reconstruction
    /\ ChanOK(e.e0, e.d0, e.dnb)
    /\ (e.emid[last] = 0) => ChanOK(e.e1, e.d1, e.dnb)
\* how the implementation behaves around it
WcModel(e) ==
  /\ (e.lost = 1) => e.dppa = e.dppb /\ e.pdoma = e.pdomb           \* concealment keeps the predictors and the flag
  /\ (e.lost = 0 /\ e.nfr = 1 /\ e.fsz >= 2 /\ TocConfig(e.toc) < 16 /\ TocStereo(e.toc) = 0) => e.dppa = e.dppb /\ e.dnci = 1     \* mono packet: untouched
  /\ (e.enci = 2 /\ e.ew = 0) => e.epp = << 0, 0 >>                 \* zero width: the encoder itself predicts nothing
  /\ (e.enci = 2) => e.ew \in 0..16384 /\ e.esw \in 0..16384 /\ e.essl \in 0..10000
  /\ (e.enci = 2 /\ e.emid[e.nf] = 1) => e.ew = 0                   \* mid-only only at zero width
  \* stereo_LR_to_MS.c:140-181: the width the encoder ends a frame with is 0, 1.0 (only while the smoothed width is above 0.95) or the smoothed width itself
  /\ (e.enci = 2) => /\ e.ew \in {0, 16384, e.esw}
                     /\ (e.ew = 16384) => e.esw > 15565
                     /\ (e.ew \notin {0, 16384}) => e.esw <= 15565
  \* stereo_LR_to_MS.c:184-195: the side channel is dropped only after 5 ms (LA_SHAPE_MS) of it have been silent; the counter then sticks at 10000
  /\ (e.enci = 2 /\ e.emid[e.nf] = 1) => e.essl = 10000
  /\ (e.enci = 2 /\ e.emid[e.nf] = 0) => e.essl < 5 * e.efs
  /\ e.eslg0 >= 0 /\ e.eslg1 >= 0
  \* LTP scaling is coded only for independently coded frames (module SilkIdx: DecScale); the last frame of a multi-frame packet is
  \* coded conditionally (or, for the side channel after a mid-only frame, independently WITHOUT LTP scaling): its scale index is 0
  /\ (WcClaim(e) /\ e.nf > 1) => /\ (e.d0.st = 2 => e.d0.lsc = 0 /\ e.e0.lsc = 0)
                                 /\ (e.emid[e.nf] = 0 /\ e.d1.st = 2) => (e.d1.lsc = 0 /\ e.e1.lsc = 0)

CaseOK == LET e == Tr[l] IN
          IF e.k = "sd" THEN SdOK(e)
          ELSE IF e.k = "sq" THEN SqOK(e)
          ELSE IF e.k = "ms" THEN MsOK(e)
          ELSE IF e.k = "lr" THEN LrOK(e)
          ELSE IF e.k = "dp" THEN DpOK(e)
          ELSE IF e.k = "lq" THEN LqOK(e)
          ELSE IF e.k = "wc" THEN WcOK(e)
          ELSE IF e.k \in {"l2", "ln", "wc_err"} THEN TRUE
          ELSE FALSE

ModelOK == LET e == Tr[l] IN
           IF e.k = "sq" THEN SqModel(e)
           ELSE IF e.k = "ms" THEN MsModel(e)
           ELSE IF e.k = "lr" THEN LrModel(e)
           ELSE IF e.k = "lq" THEN LqModel(e)
           ELSE IF e.k = "l2" THEN L2Model(e)
           ELSE IF e.k = "ln" THEN LnModel(e)
           ELSE IF e.k = "wc" THEN WcModel(e)
           ELSE TRUE

Init == l \in 1..Len(Tr)
Next == UNCHANGED l
Spec == Init /\ [][Next]_l
=============================================================================
