---------------------------- MODULE SilkSide2_mc ----------------------------
(* Exhaustive exploration of module SilkSide2.  One small initial state and a Next that fans out (initial-state          *)
(* enumeration is single-threaded).  Sys selects the system:                                                             *)
(*   "S"  the whole stereo index domain 25*3*5*3*5 = 5625 points (dequantiser theorems)                                   *)
(*   "Q"  the encoder's search for every integer input in -QSpan..QSpan plus the 32-bit boundary points                   *)
(*   "I"  the 8 ms interpolation for every pair (prev, new) of reachable predictor values on a level grid x {8,12,16} kHz *)
(*   "L"  LTP tables, silk_log2lin / silk_lin2log, the max-gain arithmetic and the cumulative-gain machine                *)
EXTENDS SilkSide2
CONSTANTS Sys, QSpan, IStride, Policy, SumCap
VARIABLE s
vars == << s >>

FsSet == {8, 12, 16}
\* grid of levels for system I: every IStride-th level plus both ends
GridLevels == {LevelTab[m] : m \in {k \in 0..(NLevel - 1) : k % IStride = 0 \/ k = NLevel - 1}}
Comp1Values == GridLevels
Comp0Values == {a - b : a \in GridLevels, b \in GridLevels}
QBoundary == {Int32Max - 16384, -(Int32Max - 16384), 1073741824, -1073741824, 65536, -65536, 32768, -32768}

AllVectors == {<<k, i>> : k \in 0..(NbCbk - 1), i \in 0..31} \cap {v \in (0..2) \X (0..31) : v[2] < CbkSize(v[1])}
GainOf(v) == VG(v[1])[v[2] + 1]
MinGain == CHOOSE g \in {GainOf(v) : v \in AllVectors} : \A v \in AllVectors : g <= GainOf(v)
\* Policy "hard": the quantiser never exceeds max_gain_Q7 when some vector respects it (the penalty of VQ_WMat_EC read as a hard
\* constraint), otherwise it takes a vector of least gain.  Policy "any": every vector may be chosen (the penalty is only a cost).
Allowed(sum) ==
  IF Policy = "any" THEN AllVectors
  ELSE LET ok == {v \in AllVectors : GainOf(v) <= MaxGainQ7(sum)} IN
       IF ok # {} THEN ok ELSE {v \in AllVectors : GainOf(v) = MinGain}

Init == s = [t |-> "init"]
Next ==
  \/ /\ s.t = "init" /\ Sys = "S"
     /\ \E a \in 0..2, b \in 0..(SubSteps - 1), c \in 0..4, d \in 0..2, e \in 0..(SubSteps - 1), f \in 0..4 : s' = [t |-> "sd", ix |-> <<a, b, c, d, e, f>>]
  \/ /\ s.t = "init" /\ Sys = "Q"
     /\ \E p \in ((-QSpan)..QSpan) \cup QBoundary : s' = [t |-> "sq", p |-> p]
  \/ /\ s.t = "init" /\ Sys = "I"
     /\ \E fs \in FsSet : \/ \E a \in Comp1Values, b \in Comp1Values : s' = [t |-> "ip", c |-> 1, fs |-> fs, prev |-> a, new |-> b]
                          \/ \E a \in Comp0Values \cup {0}, b \in Comp0Values : s' = [t |-> "ip", c |-> 0, fs |-> fs, prev |-> a, new |-> b]
  \/ /\ s.t = "init" /\ Sys = "L"
     /\ \/ \E x \in (-3)..4100 : s' = [t |-> "l2", x |-> x]
        \/ s' = [t |-> "sum", v |-> 0]
  \/ /\ s.t = "sum" /\ Sys = "L"
     /\ \E v \in Allowed(s.v) : LET n == SumStep(s.v, GainOf(v)) IN n <= SumCap /\ s' = [t |-> "sum", v |-> n]
Spec == Init /\ [][Next]_vars

-----------------------------------------------------------------------------
(* S: tables and dequantiser *)
SpTableOK ==                                       \* 16 entries, strictly increasing, symmetric, inside Q13 +-2.0 (16-bit)
  /\ Len(SP) = NTab /\ SubSteps = 5
  /\ \A k \in 1..(NTab - 1) : SP[k] < SP[k + 1]
  /\ \A k \in 1..NTab : SP[k] = -SP[NTab + 1 - k]
  /\ \A k \in 1..NTab : SP[k] \in (-16384)..16384
LevelsOK ==                                        \* the 75 levels are strictly increasing, lie strictly inside the table's span and are symmetric up to the rounding of the step
  /\ \A m \in 0..(NLevel - 2) : LevelTab[m] < LevelTab[m + 1]
  /\ \A m \in 0..(NLevel - 1) : LevelTab[m] > SP[1] /\ LevelTab[m] < SP[NTab]
  /\ \A i \in 0..(NInterval - 1) : StepOf(i) \in 1..32767 /\ \A j \in 0..(SubSteps - 1) : StereoLevel(i, j) > SP[i + 1] /\ StereoLevel(i, j) < SP[i + 2]
  /\ \A m \in 0..(NLevel - 1) : Abs(LevelTab[m] + LevelTab[NLevel - 1 - m]) <= 2 * SubSteps
JointOK == \A c \in 0..4, f \in 0..4 : 5 * c + f \in 0..24       \* the joint symbol has exactly the 25-entry alphabet of silk_stereo_pred_joint_iCDF
IcdfOK(t, n) == Len(t) = n /\ t[n] = 0 /\ \A k \in 1..(n - 1) : t[k] > t[k + 1] /\ t[1] < 256
StereoIcdfsOK == IcdfOK(S2Tab.spj, 25) /\ IcdfOK(S2Tab.u3, 3) /\ IcdfOK(S2Tab.u5, 5) /\ IcdfOK(S2Tab.mo, 2)

InvS_Tables == s.t = "init" /\ Sys = "S" => SpTableOK /\ LevelsOK /\ JointOK /\ StereoIcdfsOK
Bump(ix, k) == [ix EXCEPT ![k] = @ + 1]
InvS_Range == s.t = "sd" =>                        \* pred[1] inside the table span; pred[0] = difference fits the 16-bit state / the (opus_int16) cast of silk_SMLAWB
  LET p == StereoDecodePred(s.ix) IN
  /\ StereoIxOK(s.ix) /\ JointIndex(s.ix) \in 0..24
  /\ p[2] > SP[1] /\ p[2] < SP[NTab]
  /\ p[1] \in Int16Set /\ p[2] \in Int16Set /\ Abs(p[1]) < 2 * SP[NTab]
InvS_Monotone == s.t = "sd" =>                     \* strictly monotone in each of the three index levels (fine, coarse, group)
  LET p == StereoDecodePred(s.ix) IN
  /\ s.ix[2] < SubSteps - 1 => LET q == StereoDecodePred(Bump(s.ix, 2)) IN q[1] > p[1] /\ q[2] = p[2]
  /\ s.ix[5] < SubSteps - 1 => LET q == StereoDecodePred(Bump(s.ix, 5)) IN q[2] > p[2] /\ q[1] < p[1]
  /\ s.ix[1] < 2 => StereoDecodePred(Bump(s.ix, 1))[1] > p[1]
  /\ s.ix[3] < 4 => StereoDecodePred(Bump(s.ix, 3))[1] > p[1]
  /\ s.ix[4] < 2 => StereoDecodePred(Bump(s.ix, 4))[2] > p[2]
  /\ s.ix[6] < 4 => StereoDecodePred(Bump(s.ix, 6))[2] > p[2]
InvS_QuantFixpoint == s.t = "sd" =>                \* quantising a reconstructed pair gives back the same indices and values (both components are levels)
  LET p == StereoDecodePred(s.ix)  r == StereoQuantPred(<< p[1] + p[2], p[2] >>) IN r.ix = s.ix /\ r.q = p

(* Q: the encoder's search *)
MaxGap == CHOOSE g \in {LevelTab[m + 1] - LevelTab[m] : m \in 0..(NLevel - 2)} : \A m \in 0..(NLevel - 2) : g >= LevelTab[m + 1] - LevelTab[m]
InvQ == s.t = "sq" =>
  LET r == StereoQuant1(s.p)  e == Abs(s.p - r.q) IN
  /\ QuantInputSafe(s.p)
  /\ r.m \in 0..(NLevel - 1)
  /\ r.ix[1] \in 0..2 /\ r.ix[2] \in 0..(SubSteps - 1) /\ r.ix[3] \in 0..4                                    \* codable
  /\ StereoDecode1(r.ix[1], r.ix[2], r.ix[3]) = r.q                                                            \* write-back = what the decoder reconstructs
  /\ \A m \in 0..(NLevel - 1) : e <= Abs(s.p - LevelTab[m])                                                    \* the early exit finds the global optimum
  /\ \A m \in 0..(r.m - 1) : Abs(s.p - LevelTab[m]) > e                                                        \* ties go to the lower level
  /\ (s.p >= LevelTab[0] /\ s.p <= LevelTab[NLevel - 1]) => 2 * e <= MaxGap                                    \* inside the span: within half a step
  /\ s.p < LevelTab[0] => r.m = 0
  /\ s.p > LevelTab[NLevel - 1] => r.m = NLevel - 1

(* I: interpolation *)
Sign(x) == IF x > 0 THEN 1 ELSE IF x < 0 THEN -1 ELSE 0
NoWrap(prev, new) == (new - prev) \in Int16Set
\* |ramp end - target| <= half a unit per step (rounding of the increment) + the truncation of 65536/(8 fs) (12 kHz: 682*96 = 65472)
RampSlack(d, fs) == (InterpLen(fs) \div 2) + ((Abs(d) * (65536 - InterpLen(fs) * DenomQ16(fs))) \div 65536) + 1
InvI_Arith == s.t = "ip" =>
  /\ InterpLen(s.fs) \in {64, 96, 128} /\ DenomQ16(s.fs) \in {1024, 682, 512}
  /\ s.prev \in Int16Set /\ s.new \in Int16Set
InvI_Ramp == (s.t = "ip" /\ NoWrap(s.prev, s.new)) =>
  LET d == s.new - s.prev  dl == InterpDelta(s.prev, s.new, s.fs)  e == RampEnd(s.prev, s.new, s.fs) IN
  /\ (dl = 0 \/ Sign(dl) = Sign(d))                                                   \* moves towards the target, never away
  /\ Abs(e - s.new) <= RampSlack(d, s.fs)                                             \* and ends next to it (the code then sets it exactly)
  /\ (s.prev = s.new => dl = 0)
  /\ \A n \in {0, InterpLen(s.fs) - 1} : PredAt(s.prev, s.new, dl, s.fs, n) \in Int16Set     \* every ramp value survives the (opus_int16) cast of silk_SMLAWB
  /\ PredAt(s.prev, s.new, dl, s.fs, InterpLen(s.fs)) = s.new                          \* after 8 ms: exactly the new value
InvI_Comp1NeverWraps == (s.t = "ip" /\ s.c = 1) => NoWrap(s.prev, s.new)
\* WITNESS (must be refuted): "the 16-bit cast of the difference never wraps".  It does for component 0 (difference of two levels) when the
\* jump exceeds 32767: the ramp then runs AWAY from the target for 8 ms.  Encoder and decoder share the arithmetic, so they stay in step.
WitnessNoWrapAnywhere == s.t = "ip" => NoWrap(s.prev, s.new)
WitnessRampTowardsAlways == s.t = "ip" =>
  LET dl == InterpDelta(s.prev, s.new, s.fs) IN dl = 0 \/ Sign(dl) = Sign(s.new - s.prev)

(* L: LTP tables and the gain arithmetic *)
LtpTablesOK ==
  /\ S2Tab.sizes = << 8, 16, 32 >> /\ LtpOrder = 5
  /\ \A k \in 0..(NbCbk - 1) :
       /\ Len(VQ(k)) = LtpOrder * CbkSize(k) /\ Len(VG(k)) = CbkSize(k) /\ IcdfOK(VC(k), CbkSize(k))
       /\ \A m \in 1..Len(VQ(k)) : VQ(k)[m] \in (-128)..127 /\ VQ(k)[m] * 128 \in Int16Set       \* Q7 in 8 bits, Q14 in 16 bits
  /\ IcdfOK(S2Tab.per, 3) /\ IcdfOK(S2Tab.lsi, 3)
  /\ Len(LS) = 3 /\ LS[1] > LS[2] /\ LS[2] > LS[3] /\ LS[3] > 0 /\ LS[1] <= 16384              \* LTP scaling only ever attenuates
\* the effective-gain table is a frequency-response maximum: it lies between |sum of taps| (response at DC) and the sum of |taps|
LtpGainSandwich ==
  \A k \in 0..(NbCbk - 1) : \A i \in 0..(CbkSize(k) - 1) :
     LET v == LtpVec(k, i) IN Abs(SumSeq(v, 1, LtpOrder)) <= VG(k)[i + 1] /\ VG(k)[i + 1] <= SumAbsSeq(v, 1, LtpOrder)
LtpAbsSumMax == CHOOSE g \in {SumAbsSeq(LtpVec(v[1], v[2]), 1, LtpOrder) : v \in AllVectors} : \A v \in AllVectors : g >= SumAbsSeq(LtpVec(v[1], v[2]), 1, LtpOrder)
\* hard bound: five taps of at most 127 (Q7) -> the filter can not amplify by more than 635/128; table-derived bound: 217/128 (1.70)
LtpAbsSumHard == LtpAbsSumMax <= LtpOrder * 127
LtpAbsSumRef == LtpAbsSumMax = 217
ConstOK == MaxSumQ7 = 5333 /\ SafetyQ7 = 51 /\ SevenQ7 = 896 /\ InterpMs = 8 /\ HalfStepQ16 = 6554
\* max_gain_Q7 for every cumulative gain 0..SumCap: argument and result inside 32 bits, non-increasing, saturated below 2262, "nothing allowed" (-safety) above maxsum+7.0
MaxGainOK ==
  /\ \A v \in 0..SumCap : MaxGainArg(v) \in (-Int32Max)..Int32Max /\ Log2LinSafe(MaxGainArg(v)) /\ MaxGainQ7(v) >= -SafetyQ7
  /\ \A v \in 0..(SumCap - 1) : MaxGainQ7(v + 1) <= MaxGainQ7(v)
  /\ \A v \in 0..SumCap : (MaxGainArg(v) >= 3967 <=> MaxGainQ7(v) = Int32Max - SafetyQ7) /\ (MaxGainArg(v) < 0 => MaxGainQ7(v) = -SafetyQ7)
  /\ \A v \in {0, SumCap}, g \in {0, 255} : PenaltyQ15(g, MaxGainQ7(v)) \in 0..(2048 * (255 + SafetyQ7))
InvL_Tables == (s.t = "init" /\ Sys = "L") => LtpTablesOK /\ LtpAbsSumHard /\ MaxGainOK
InvL_Sandwich == (s.t = "init" /\ Sys = "L") => LtpGainSandwich        \* encoder-only table (rate control of the LTP search)
InvL_Log2Lin == s.t = "l2" =>
  /\ Log2LinSafe(s.x)                                                               \* the 3967 cut-off is exactly what keeps the result inside 32 bits
  /\ Log2Lin(s.x) \in 0..Int32Max
  /\ Log2LinSafe(s.x + 1) /\ Log2Lin(s.x + 1) >= Log2Lin(s.x)                       \* non-decreasing
  /\ (s.x >= SevenQ7 /\ s.x < 3967) => Abs(Lin2Log(Log2Lin(s.x)) - s.x) <= 3        \* "very close inverse" (exhaustive: 3 is attained; below 7.0 the integer result is too coarse)
  /\ (s.x >= 0 /\ s.x % 128 = 0 /\ s.x < 3967) => Log2Lin(s.x) = 2 ^ (s.x \div 128)
\* the cumulative gain under the hard policy never exceeds MAX_SUM_LOG_GAIN_DB (Q7) by more than the rounding of the two approximations
SumSlack == 4
InvL_SumBounded == s.t = "sum" => s.v >= 0 /\ s.v <= MaxSumQ7 + SumSlack
\* WITNESS (must be refuted with Policy = "any"): the penalty is a cost, not a constraint, so nothing in the arithmetic bounds the sum
WitnessSumBoundedAnyPolicy == s.t = "sum" => s.v <= MaxSumQ7 + SumSlack

\* vacuity: kinds of state reached
PrintOnce == (s.t = "init") => PrintT(<<"S2INFO", Sys, ToString(TableDiff), IF Sys = "L" THEN LtpAbsSumMax ELSE 0, IF Sys = "L" THEN (IF LtpAbsSumRef /\ ConstOK THEN 1 ELSE 0) ELSE 1,
                                        IF Sys = "I" THEN Cardinality(Comp0Values) ELSE 0, IF Sys = "Q" THEN MaxGap ELSE 0>>)
=============================================================================
