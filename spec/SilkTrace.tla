----------------------------- MODULE SilkTrace -----------------------------
(* Validation of recorded calls of the real SILK dequantisers and of the    *)
(* encoder-side quantisers (hx_silk) against module SilkParams.  Stateless: *)
(* one initial state per recorded case; every event carries the inter-frame *)
(* references it started from.  Event kinds: gd gq pl nd dp di ne pa wc (ns, *)
(* ne_abort carry no claim).                                               *)
(*                                                                         *)
(*   CaseOK    the clauses of property C18 (a rejection is a VIOLATION)     *)
(*   ModelOK   exact reference sub-models of code the property leaves free  *)
(*             (the encoder's choice of gain index; the stabiliser on       *)
(*             vectors no bitstream produces) - a rejection is reported as  *)
(*             SPEC-DRIFT only                                              *)
EXTENDS SilkParams
VARIABLE l

Tr == ndJsonDeserialize(IOEnv.TRACE)

\* measurement threshold: silk_LPC_inverse_pred_gain returns 0 for a filter it considers unstable or whose
\* prediction power gain exceeds MAX_PREDICTION_POWER_GAIN (1e4); any other value is >= 2^30 / 1e4
MinInvGainQ30 == 107374

IsBit(x) == x \in {0, 1}
Zeros(n) == [i \in 1..n |-> 0]

-----------------------------------------------------------------------------
\* silk_gains_dequant: equality with the normative dequantiser, and the range clauses on what was returned
GainsInRange(gs) == \A k \in 1..Len(gs) : gs[k] >= GainOfLevel(0) /\ gs[k] <= GainOfLevel(NLevels - 1)
GdOK(e) ==
  /\ IsBit(e.c) /\ e.n \in 1..4 /\ Len(e.i) = e.n /\ e.p \in 0..(NLevels - 1)
  /\ \A k \in 1..e.n : GainIndexOK(e.i[k], (k > 1) \/ e.c = 1)
  /\ LET r == GainDequant(e.p, e.i, e.c = 1) IN e.np = r.prev /\ e.g = r.gains
  /\ e.np \in 0..(NLevels - 1)
  /\ GainsInRange(e.g)

\* silk_gains_quant followed by silk_gains_dequant on what it emitted: the indices are codable, the decoder
\* reconstructs exactly the encoder's gains and previous index, and that decoder is the normative one
GqOK(e) ==
  /\ IsBit(e.c) /\ e.n \in 1..4 /\ Len(e.x) = e.n /\ Len(e.i) = e.n /\ e.p \in 0..(NLevels - 1)
  /\ \A k \in 1..e.n : e.x[k] >= 1
  /\ \A k \in 1..e.n : GainIndexOK(e.i[k], (k > 1) \/ e.c = 1)
  /\ e.dp = e.np /\ e.dg = e.g
  /\ LET r == GainDequant(e.p, e.i, e.c = 1) IN e.dp = r.prev /\ e.dg = r.gains
  /\ e.np \in 0..(NLevels - 1)
  /\ GainsInRange(e.g)
GqModel(e) ==
  LET m == GainQuant(e.p, e.x, e.c = 1) IN m.inds = e.i /\ m.prev = e.np /\ m.gains = e.g

\* silk_decode_pitch
PlOK(e) ==
  /\ e.fs \in FsSetKHz /\ e.n \in {2, 4} /\ e.ci \in 0..(NContours(e.fs, e.n) - 1)
  /\ e.li \in (-32768)..32767
  /\ e.l = PitchLags(e.li, e.ci, e.fs, e.n)
  /\ \A k \in 1..e.n : e.l[k] >= MinLag(e.fs) /\ e.l[k] <= MaxLag(e.fs)
  /\ e.ov = 0

\* the clauses on a decoded NLSF vector
NlsfClauses(cbSel, q) ==
  /\ Len(q) = CB(cbSel).order
  /\ NLSFInRange(q) /\ NLSFOrdered(q) /\ NLSFSpaced(q, CB(cbSel).dmin)

\* silk_NLSF_decode (+ silk_NLSF_unpack, silk_NLSF2A, measured inverse prediction gain)
NdOK(e) ==
  /\ IsBit(e.cb) /\ NLSFIndexOK(e.cb, e.ix)
  /\ e.pr = PredQ8(CB(e.cb), e.ix[1])
  /\ e.ec = EcIx(CB(e.cb), e.ix[1])
  /\ e.q = NLSFDecode(e.cb, e.ix)
  /\ NlsfClauses(e.cb, e.q)
  /\ Len(e.a) = CB(e.cb).order
  /\ NLSF2AMatches(e.a, e.q)                      \* the normative NLSF-to-LPC conversion, Q12 values inside 16 bits before the cast
  /\ e.s >= MinInvGainQ30

\* silk_NLSF_stabilize called directly on synthetic vectors (not reachable from a bitstream): reference only
NsModel(e) ==
  /\ e.out = NLSFStabilize(e.inp, CB(e.cb).dmin, CB(e.cb).order)
  /\ NlsfClauses(e.cb, e.out)

\* silk_decode_parameters on a decoder state
DpOK(e) ==
  LET cond == e.cc = 2
      o == CB(e.cb).order
  IN
  /\ e.fs \in FsSetKHz /\ e.n \in {2, 4} /\ e.cc \in {0, 1, 2} /\ e.cb = (IF e.fs = 16 THEN 1 ELSE 0)
  /\ e.lg \in 0..(NLevels - 1) /\ Len(e.gi) = e.n
  /\ \A k \in 1..e.n : GainIndexOK(e.gi[k], (k > 1) \/ cond)
  /\ LET r == GainDequant(e.lg, e.gi, cond) IN e.olg = r.prev /\ e.g = r.gains
  /\ e.olg \in 0..(NLevels - 1) /\ GainsInRange(e.g)
  /\ NLSFIndexOK(e.cb, e.ix)
  /\ e.q = NLSFDecode(e.cb, e.ix)
  /\ NlsfClauses(e.cb, e.q)
  /\ e.ip \in 0..4 /\ (e.n = 2 => e.ip = 4)
  /\ Len(e.pn) = o
  /\ \/ e.ffr = 1                                  \* previous vector unused: interpolation is switched off
     \/ NlsfClauses(e.cb, e.pn)                    \* else it is a vector this decoder produced earlier
  /\ Len(e.a0) = o /\ Len(e.a1) = o
  /\ (e.ip = 4 \/ e.ffr = 1) => e.a0 = e.a1       \* no interpolation: both halves use the same filter
  /\ IsBit(e.loss)
  /\ IF e.loss = 1 THEN NLSF2AMatchesLoss(e.a1, e.q) ELSE NLSF2AMatches(e.a1, e.q)
  /\ (e.ip < 4 /\ e.ffr = 0) =>                   \* first half: filter of the interpolated vector
        LET q0 == NLSFInterp(e.pn, e.q, e.ip) IN
        IF e.loss = 1 THEN NLSF2AMatchesLoss(e.a0, q0) ELSE NLSF2AMatches(e.a0, q0)
  /\ e.s0 >= MinInvGainQ30 /\ e.s1 >= MinInvGainQ30
  /\ IF e.st = 2
     THEN /\ e.ci \in 0..(NContours(e.fs, e.n) - 1)
          /\ e.pl = PitchLags(e.li, e.ci, e.fs, e.n)
          /\ \A k \in 1..e.n : e.pl[k] >= MinLag(e.fs) /\ e.pl[k] <= MaxLag(e.fs)
     ELSE e.pl = Zeros(e.n)

\* silk_decode_indices on random range-coder input: whatever the bitstream holds, the indices it yields lie in the
\* domains over which the model is checked (this binds the antecedent "index values a bitstream can carry")
DiOK(e) ==
  /\ e.fs \in FsSetKHz /\ e.n \in {2, 4} /\ e.cc \in {0, 1, 2} /\ e.f \in 0..(MaxFramesPerPacket - 1)
  /\ (e.f = 0 => e.cc # 2)
  /\ e.st \in 0..2 /\ Len(e.gi) = e.n
  /\ \A k \in 1..e.n : GainIndexOK(e.gi[k], (k > 1) \/ e.cc = 2)
  /\ NLSFIndexOK(IF e.fs = 16 THEN 1 ELSE 0, e.ix)
  /\ e.ip \in 0..4 /\ (e.n = 2 => e.ip = 4)
  /\ (e.st = 2) =>
        /\ e.ci \in 0..(NContours(e.fs, e.n) - 1)
        /\ \/ e.li \in 0..MaxAbsLagIndex(e.fs)
           \/ (e.cc = 2 /\ e.pst = 2 /\ (e.li - e.pli) \in LagDeltaSet)
        /\ e.li \in (-8 * e.f)..(MaxAbsLagIndex(e.fs) + 11 * e.f)
        /\ e.oli = e.li
  /\ e.ost = e.st

\* encoder side, NLSF: what silk_NLSF_encode emits is codable, and the vector it keeps as "quantised" is what the
\* decoder reconstructs from those indices
NeOK(e) ==
  /\ IsBit(e.cb) /\ NLSFIndexOK(e.cb, e.ix)
  /\ e.qe = e.qd
  /\ e.qd = NLSFDecode(e.cb, e.ix)
  /\ NlsfClauses(e.cb, e.qd)

\* encoder side, pitch: for a frame the analyser calls voiced, the indices it will send are codable in absolute form
\* and decode to exactly the lags it will use itself
PaOK(e) ==
  /\ e.fs \in FsSetKHz /\ e.n \in {2, 4} /\ IsBit(e.v)
  /\ (e.v = 1) =>
        /\ e.li \in 0..MaxAbsLagIndex(e.fs)
        /\ e.ci \in 0..(NContours(e.fs, e.n) - 1)
        /\ e.po = PitchLags(e.li, e.ci, e.fs, e.n)

\* whole codec (SILK-only opus_encode -> opus_decode): for the last frame of a packet and each coded channel, the side
\* information the encoder quantised and kept (indices, last sub-frame lag, accumulated gain level, quantised NLSF
\* vector) is what the decoder reconstructed from the packet, and it satisfies the range clauses.  The encoder's
\* scratch copies of the gain indices and of the seed are not compared: when the rate loop falls back to an earlier
\* iteration it restores the coder state and the accumulated gain level, not those.
WcOK(e) ==
  LET E == e.e  D == e.d  cb == IF e.efs = 16 THEN 1 ELSE 0 IN
  /\ e.efs \in FsSetKHz /\ e.n \in {2, 4} /\ e.nf \in 1..MaxFramesPerPacket /\ IsBit(e.coded)
  \* claimed only for packets that carry the SILK frames (not the TOC-only packet the encoder emits when SILK busted its
  \* byte budget, which the decoder conceals) and on which both range coders ended in the same state
  /\ (e.coded = 1 /\ e.nfr = 1 /\ e.fsz >= 2 /\ e.er = e.dr) =>
       /\ e.dfs = e.efs /\ e.dn = e.n
       /\ D.st = E.st /\ D.qo = E.qo
       /\ D.ix = E.ix /\ D.ip = E.ip /\ D.q = E.q /\ D.lg = E.lg
       /\ D.st \in 0..2 /\ D.lg \in 0..(NLevels - 1)
       /\ NLSFIndexOK(cb, D.ix) /\ D.q = NLSFDecode(cb, D.ix) /\ NlsfClauses(cb, D.q)
       \* the prediction filters of both half-frames (second half from the quantised NLSFs, first half from the vector
       \* interpolated with the previous frame's): what the encoder used is what the decoder reconstructs
       /\ (e.ea.ok = 1 /\ e.da.ok = 1) => e.ea.ip = e.da.ip /\ e.ea.a1 = e.da.a1 /\ e.ea.a0 = e.da.a0
       /\ \A k \in 1..e.n : GainIndexOK(D.gi[k], k > 1) \/ GainIndexOK(D.gi[k], TRUE)
       /\ (D.st = 2) =>
            /\ D.li = E.li /\ D.ci = E.ci /\ D.per = E.per /\ D.ltp = E.ltp /\ D.lsc = E.lsc /\ D.lag = E.lag
            /\ D.ci \in 0..(NContours(e.efs, e.n) - 1)
            /\ D.lag = PitchLags(D.li, D.ci, e.efs, e.n)[e.n]
            /\ D.lag >= MinLag(e.efs) /\ D.lag <= MaxLag(e.efs)

CaseOK == LET e == Tr[l] IN
          IF e.k = "gd" THEN GdOK(e)
          ELSE IF e.k = "gq" THEN GqOK(e)
          ELSE IF e.k = "pl" THEN PlOK(e)
          ELSE IF e.k = "nd" THEN NdOK(e)
          ELSE IF e.k = "dp" THEN DpOK(e)
          ELSE IF e.k = "di" THEN DiOK(e)
          ELSE IF e.k = "ne" THEN NeOK(e)
          ELSE IF e.k = "pa" THEN PaOK(e)
          ELSE IF e.k = "wc" THEN WcOK(e)
          ELSE IF e.k = "wc_err" THEN TRUE        \* encode/decode call failed: not a clause of this property (the check stops with an infrastructure error)
          ELSE IF e.k = "ne_abort" THEN TRUE      \* input outside the quantiser's 32-bit arithmetic domain: counted, no claim
          ELSE IF e.k = "ns" THEN TRUE
          ELSE FALSE

ModelOK == LET e == Tr[l] IN
           IF e.k = "gq" THEN GqModel(e)
           ELSE IF e.k = "ns" THEN NsModel(e)
           ELSE TRUE

Init == l \in 1..Len(Tr)
Next == UNCHANGED l
Spec == Init /\ [][Next]_l
=============================================================================
