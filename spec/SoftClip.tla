------------------------------ MODULE SoftClip ------------------------------
(* Property C19: the structural contract of the public soft clipper (opus_pcm_soft_clip) as a  *)
(* state machine over its per-channel state memory, and the contract of the decoder gain       *)
(* (OPUS_SET_GAIN).  Sample values are not modelled (float arithmetic is out of TLA+'s reach): *)
(* a frame is abstracted, per channel, to what decides the structure -                          *)
(*     "IN"   every sample already inside [-1, 1]                                               *)
(*     "OVC"  some sample outside [-1, 1], and no clipped excursion is still open at the end    *)
(*            of the frame (the signal crossed zero and stayed in range after the last one)     *)
(*     "OVO"  a clipped excursion is still open when the frame ends                             *)
(* and the memory to zero / non-zero plus a ghost history of everything that has flowed into   *)
(* it.  The float-valued clauses (output within [-1, 1], no sign flip, gain factor) are judged  *)
(* on integer measurements in SoftClipTrace.                                                    *)
EXTENDS Integers, Sequences, FiniteSets

FrameSyms == {"IN", "OVC", "OVO"}
MemVals   == {"Z", "NZ"}

\* a memory cell: abstract value, and (ghost) the <<channel, frame>> pairs that have flowed into it since it was cleared
ZeroCell == [v |-> "Z", h |-> <<>>]

\* Variant = "ok" is the design; the other values are seeded design errors used to show that the
\* invariants of SoftClip_mc are not vacuous
Variants == {"ok", "sharedmem", "carry", "noreset"}

\* the coefficient still in force at the end of the call: non-zero exactly when an excursion is open
MemAfter(v, f, Variant) ==
  IF Variant = "noreset" THEN (IF f = "IN" THEN v ELSE "NZ")
  ELSE IF f = "OVO" THEN "NZ" ELSE "Z"

\* one channel of one call.  out.src says which history the output samples depend on (besides the frame
\* itself); out.same says "output bit-identical to the input"
Process(cell, ch, f, Variant) ==
  [cell |-> [v |-> MemAfter(cell.v, f, Variant), h |-> Append(cell.h, <<ch, f>>)],
   out  |-> [src |-> cell.h, fr |-> <<ch, f>>, same |-> (cell.v = "Z" /\ f = "IN")]]

\* a call: C channels, N class ("0": N < 1, "T": 1..7 samples, "R": 8..5760), NULL pcm, NULL memory,
\* one frame symbol per channel
Degenerate(call) == call.C < 1 \/ call.n = "0" \/ call.np \/ call.nm

\* the interleaved call, channel loop as in the C code: read the channel's coefficient, process, write it back
RECURSIVE Inter(_, _, _, _, _, _, _)
Inter(mem, fr, C, c, outs, carry, Variant) ==
  IF c > C THEN [mem |-> mem, outs |-> outs]
  ELSE LET src == IF Variant = "sharedmem" THEN mem[1]
                  ELSE IF Variant = "carry" /\ c > 1 THEN carry
                  ELSE mem[c]
           dst == IF Variant = "sharedmem" THEN 1 ELSE c
           r   == Process(src, c, fr[c], Variant)
       IN Inter([mem EXCEPT ![dst] = r.cell], fr, C, c + 1, Append(outs, r.out), r.cell, Variant)

Clip(mem, call, Variant) ==
  IF Degenerate(call) THEN [mem |-> mem, outs |-> <<>>]
  ELSE Inter(mem, call.f, call.C, 1, <<>>, ZeroCell, Variant)

\* the same frames, channel by channel: C calls with one channel each, cell c as that call's memory
PerChannel(mem, call, Variant) ==
  IF Degenerate(call) THEN [mem |-> mem, outs |-> <<>>]
  ELSE [mem  |-> [c \in DOMAIN mem |-> IF c <= call.C THEN Process(mem[c], c, call.f[c], Variant).cell ELSE mem[c]],
        outs |-> [c \in 1..call.C |-> Process(mem[c], c, call.f[c], Variant).out]]

-----------------------------------------------------------------------------
(* Decoder gain.  The decoder is abstracted to [gain, hist]; what a decode call lets the caller *)
(* observe besides the amplitude (sample count, final range, last packet duration) is a          *)
(* function of the call history only.                                                            *)
GainMin == 0 - 32768
GainMax == 32767
GainLegal(g) == g >= GainMin /\ g <= GainMax
OPUS_OK == 0
OPUS_BAD_ARG == 0 - 1

GainVariants == {"ok", "storebad", "gaininstate"}

SetGain(gain, g, GV) ==
  IF GainLegal(g) THEN [ret |-> OPUS_OK, gain |-> g]
  ELSE [ret |-> OPUS_BAD_ARG, gain |-> IF GV = "storebad" THEN g ELSE gain]

NewDec == [gain |-> 0, hist |-> <<>>]
\* p: a packet class; the observation is a ghost token of the history (and, in the seeded error, of the gain)
Decode(d, p, GV) ==
  LET h == Append(d.hist, p) IN
  [d   |-> [d EXCEPT !.hist = h],
   obs |-> [count |-> p, rng |-> IF GV = "gaininstate" /\ d.gain # 0 THEN <<h, d.gain>> ELSE <<h>>, dur |-> p],
   amp |-> d.gain]
\* OPUS_RESET_STATE: the gain survives (include/opus_defines.h)
ResetDec(d) == [d EXCEPT !.hist = <<>>]
=============================================================================
