--------------------------- MODULE SoftClipTrace ---------------------------
(* Validation of recorded executions of opus_pcm_soft_clip and of the decoder gain against      *)
(* module SoftClip (property C19).  hx_softclip executes and measures; every clause is judged    *)
(* here.  Float-valued clauses are judged on integer measurements (R3):                           *)
(*   ov[c]   number of output samples outside [-1, 1] (exact float comparisons, NaN counts)       *)
(*   fp[c]   number of samples with x > 0 > y or x < 0 < y; fb[c] those of them with |x| or |y|   *)
(*           at least 2^-10                                                                        *)
(*   digests of per-channel input / output samples and of the state memories                      *)
(*   hq, tq  20 log10 of the geometric mean of the smallest and the largest per-sample ratio      *)
(*           y_g / y_0 in units of 1/25600 dB, hs, ts the spread (max/min - 1) in units of 2^-30  *)
(*   o16/w16/m16, o24/w24/m24   samples beyond the integer container (by the float twin with the  *)
(*           same gain), how many of them came out with the wrong sign, smallest magnitude        *)
(* Environment: TRACE, STRICT (model conformance of the memory flag, SPEC-DRIFT only), TOLFLIP,   *)
(* TOLTRANS (relax exactly the clauses of findings F11 / F12 - both fixed, so both are "0" unless  *)
(* known_findings.json lists them as known again, see lib/checks/C19.py).                         *)
EXTENDS SoftClip, Json, IOUtils, TLC
CONSTANTS SpreadTol,      \* 2^-30 units: one float rounding of y_0 * factor gives at most 2^-23 = 128
          FactorTol,      \* 1/25600 dB units: 50 = half a Q8 step, the factor is nearer to 10^(g/5120) than to g +- 1
          SatMin16,       \* a sample beyond the 16-bit container must come out with magnitude >= this (soft clip maps it to >= 0.75)
          SatMin24        \* same for the 32-bit container of the 24-bit API, in units of 2^16
VARIABLES l, md, clr, mv, gcfg, gain
vars == <<l, md, clr, mv, gcfg, gain>>

Tr == ndJsonDeserialize(IOEnv.TRACE)
Strict == IOEnv.STRICT = "1"
TolFlip == IOEnv.TOLFLIP = "1"
TolTrans == IOEnv.TOLTRANS = "1"

MAXCH == 16
AllCh(v) == [c \in 1..MAXCH |-> v]
Abs(x) == IF x < 0 THEN 0 - x ELSE x

Init == l = 1 /\ md = "" /\ clr = AllCh(TRUE) /\ mv = AllCh("Z") /\ gcfg = [fx |-> 0] /\ gain = 0

\* ---------------------------------------------------------------- soft clipper
TSeq == /\ l <= Len(Tr) /\ Tr[l].k \in {"seq", "zero"}
        /\ md' = Tr[l].ma /\ clr' = AllCh(TRUE) /\ mv' = AllCh("Z") /\ l' = l + 1 /\ UNCHANGED <<gcfg, gain>>

TSkip == /\ l <= Len(Tr) /\ Tr[l].k \in {"end", "gend"} /\ l' = l + 1 /\ UNCHANGED <<md, clr, mv, gcfg, gain>>

\* the frame symbol of channel c as far as the driver's construction determines it ("?" otherwise)
Sym(e, c) == IF e.inr[c] = 1 THEN "IN"
             ELSE IF e.det[c] = 1 /\ e.opn[c] = 1 THEN "OVO"
             ELSE IF e.det[c] = 1 /\ e.opn[c] = 0 THEN "OVC" ELSE "?"

TClip ==
  /\ l <= Len(Tr) /\ Tr[l].k = "clip"
  /\ LET e == Tr[l]
         call == [C |-> e.C, n |-> IF e.N < 1 THEN "0" ELSE "R", np |-> e.np = 1, nm |-> e.nm = 1]
     IN
     /\ e.can = 1 /\ e.pqt = 0                                 \* nothing written outside the buffers
     /\ (e.deg = 1) <=> Degenerate(call)
     /\ e.ma = e.mb /\ e.ma = e.mq                              \* the twins' memories are bit-identical
     /\ IF Degenerate(call)
        THEN \* degenerate arguments: no effect at all
             /\ e.b0 = e.b1 /\ e.ma = md
             /\ UNCHANGED <<md, clr, mv>>
        ELSE /\ \A c \in 1..e.C :
                  /\ e.ov[c] = 0                                \* output inside [-1, 1]
                  /\ IF TolFlip THEN e.fb[c] = 0 ELSE e.fp[c] = 0   \* no sample changes sign
                  /\ e.di[c] = e.dp[c] /\ e.di[c] = e.dq[c]     \* interleaved = channel by channel
                  \* already in range, memory cleared (and only in-range frames since): untouched, memory stays zero
                  /\ (clr[c] /\ e.inr[c] = 1) => (e.di[c] = e.din[c] /\ e.mz[c] = 1)
                  \* model conformance: the memory flag follows SoftClip!Process
                  /\ (Strict /\ mv[c] # "?" /\ Sym(e, c) # "?") =>
                        LET r == Process([v |-> mv[c], h |-> <<>>], c, Sym(e, c), "ok") IN
                        /\ (e.mz[c] = 1) <=> (r.cell.v = "Z")
                        /\ r.out.same => e.di[c] = e.din[c]
             /\ md' = e.ma
             /\ clr' = [c \in 1..MAXCH |-> IF c <= e.C THEN clr[c] /\ e.inr[c] = 1 ELSE clr[c]]
             /\ mv' = [c \in 1..MAXCH |-> IF c <= e.C THEN (IF e.mz[c] = 1 THEN "Z" ELSE "NZ") ELSE mv[c]]
  /\ l' = l + 1 /\ UNCHANGED <<gcfg, gain>>

\* ---------------------------------------------------------------- decoder gain
TGNew == /\ l <= Len(Tr) /\ Tr[l].k = "gnew"
         /\ Tr[l].get = 0                                       \* default: no adjustment
         /\ gcfg' = Tr[l] /\ gain' = 0 /\ l' = l + 1 /\ UNCHANGED <<md, clr, mv>>

TGSet ==
  /\ l <= Len(Tr) /\ Tr[l].k = "gset"
  /\ LET e == Tr[l]
         r == SetGain(gain, e.v, "ok")
     IN /\ e.pre = gain
        /\ e.r = r.ret /\ e.get = r.gain
        /\ e.r16 = (IF gcfg.fx = 1 THEN 0 ELSE r.ret) /\ e.r24 = e.r16 /\ e.get16 = r.gain /\ e.get24 = r.gain
        /\ e.get0 = 0
        /\ gain' = r.gain
  /\ l' = l + 1 /\ UNCHANGED <<md, clr, mv, gcfg>>

\* "This setting survives decoder reset" is documentation, not part of C19: conformance only
TGRst == /\ l <= Len(Tr) /\ Tr[l].k = "grst"
         /\ Strict => (Tr[l].get = gain /\ Tr[l].get16 = gain /\ Tr[l].get24 = gain /\ Tr[l].get0 = 0)
         /\ gain' = Tr[l].get
         /\ l' = l + 1 /\ UNCHANGED <<md, clr, mv, gcfg>>

RatioOK(n, q, s, neg) == n > 0 => (neg = 0 /\ s <= SpreadTol /\ Abs(q - 100 * gain) <= FactorTol)

\* the decoder cross-fades from a concealment frame of the old mode (opus_decode_frame, "transition")
\* (a packet decoded for its FEC data may first conceal in the transform mode when the previous packet ended with redundancy)
IsTrans(e) == /\ e.md # 0 /\ e.pm > 0
              /\ \/ e.md = 1002 /\ e.pm # 1002 /\ e.pr = 0
                 \/ e.md # 1002 /\ e.pm = 1002
                 \/ e.kind = 2 /\ e.md # 1002 /\ e.pr = 1

TGDec ==
  /\ l <= Len(Tr) /\ Tr[l].k = "gdec"
  /\ LET e == Tr[l] IN
     /\ e.can = 1
     \* sample count, final range, timing: exactly those of the gain-0 twin, on every entry point
     /\ e.rg = e.r0 /\ e.r16 = e.r0 /\ e.r24 = e.r0
     /\ e.fg = e.f0 /\ e.f16 = e.f0 /\ e.f24 = e.f0
     /\ e.lg = e.l0 /\ e.l16 = e.l0 /\ e.l24 = e.l0
     \* float output: one common factor, 10^(g/5120)
     /\ (gcfg.fx = 0 /\ e.r0 > 0) =>
          /\ e.zb = 0
          /\ RatioOK(e.tn, e.tq, e.ts, e.tneg)
          /\ ~(TolTrans /\ IsTrans(e)) => (e.zbh = 0 /\ RatioOK(e.hn, e.hq, e.hs, e.hneg))
     \* integer output saturates, never wraps
     /\ e.w16 = 0 /\ (e.o16 > 0 => e.m16 >= SatMin16)
     \* (fixed-point build: the reference is the gain-0 twin times 10^(g/5120); in the first 5 ms after a mode change
     \*  that reference is off when the gain is applied twice, finding F12)
     /\ ~(TolTrans /\ IsTrans(e)) => (e.wh16 = 0 /\ e.mh16 >= SatMin16)
     /\ e.w24 = 0 /\ (e.o24 > 0 => e.m24 >= SatMin24)
  /\ l' = l + 1 /\ UNCHANGED <<md, clr, mv, gcfg, gain>>

Next == TSeq \/ TSkip \/ TClip \/ TGNew \/ TGSet \/ TGRst \/ TGDec
Spec == Init /\ [][Next]_vars

Accepted ==
  LET n == TLCGet("stats").diameter IN
  IF n - 1 = Len(Tr) THEN TRUE
  ELSE PrintT(<<"REJECTED_AT", n, ToString(Tr[n])>>)
=============================================================================
