---------------------------- MODULE SoftClip_mc ----------------------------
(* Exhaustive exploration of the SoftClip model (property C19).                                  *)
(* System = "clip": every sequence of at most Depth calls of the soft clipper on three twins -    *)
(*   I  interleaved call, memory carried from call to call,                                       *)
(*   P  channel-by-channel calls, own memory carried from call to call,                           *)
(*   Q  channel-by-channel calls on a clone of I's memory taken before the call -                 *)
(* over C in 0..MaxC, the N classes, NULL pcm / NULL memory, every assignment of frame symbols to *)
(* channels, and the user clearing the memory.                                                    *)
(* System = "gain": every sequence of at most Depth SetGain / Decode / Reset calls on a decoder   *)
(* and its gain-0 twin.                                                                           *)
(* Gen = TRUE additionally records the call sequence and prints every maximal one for replay     *)
(* through the real code (with a reduced set of degenerate representatives).                      *)
EXTENDS SoftClip, TLC
CONSTANTS MaxC, Depth, Variant, GV, System, Gen, NClasses, GenC, GainGrid, Pkts

VARIABLES memI, memP, memQ, clr, flags, steps, sched, d0, dg, o0, og, want
vars == <<memI, memP, memQ, clr, flags, steps, sched, d0, dg, o0, og, want>>
clipVars == <<memI, memP, memQ, clr, flags>>
gainVars == <<d0, dg, o0, og, want>>

Chan == 1..MaxC
AllOpen(C) == [c \in 1..C |-> "OVO"]
Cs == IF Gen THEN GenC ELSE 1..MaxC

NonDegCalls == UNION {{[C |-> C, n |-> n, np |-> FALSE, nm |-> FALSE, f |-> f] : n \in NClasses \ {"0"}, f \in [1..C -> FrameSyms]} : C \in Cs}
DegCalls ==
  IF Gen
  THEN {[C |-> 0, n |-> "R", np |-> FALSE, nm |-> FALSE, f |-> <<>>]}
       \cup {[C |-> C, n |-> "0", np |-> FALSE, nm |-> FALSE, f |-> AllOpen(C)] : C \in Cs}
       \cup {[C |-> C, n |-> "R", np |-> TRUE, nm |-> FALSE, f |-> AllOpen(C)] : C \in Cs}
       \cup {[C |-> C, n |-> "R", np |-> FALSE, nm |-> TRUE, f |-> AllOpen(C)] : C \in Cs}
  ELSE {c \in {[C |-> C, n |-> n, np |-> np, nm |-> nm, f |-> AllOpen(C)] : C \in 0..MaxC, n \in NClasses, np \in BOOLEAN, nm \in BOOLEAN} : Degenerate(c)}
Calls == NonDegCalls \cup DegCalls

Letter(f) == IF f = "IN" THEN "I" ELSE IF f = "OVC" THEN "C" ELSE "O"
RECURSIVE Letters(_, _)
Letters(f, c) == IF c > Len(f) THEN "" ELSE Letter(f[c]) \o Letters(f, c + 1)
CallStr(call) == "K" \o ToString(call.C) \o ":" \o call.n \o ":" \o (IF call.np THEN "1" ELSE IF call.nm THEN "2" ELSE "0")
                 \o ":" \o (IF call.C = 0 THEN "I" ELSE Letters(call.f, 1))

AllTrue == [twin |-> TRUE, idem |-> TRUE, deg |-> TRUE, indep |-> TRUE]
Init == /\ memI = [c \in Chan |-> ZeroCell] /\ memP = memI /\ memQ = memI
        /\ clr = [c \in Chan |-> TRUE] /\ flags = AllTrue /\ steps = 0 /\ sched = <<>>
        /\ d0 = NewDec /\ dg = NewDec /\ o0 = <<>> /\ og = <<>> /\ want = 0

OnlyOwn(c, h) == \A i \in 1..Len(h) : h[i][1] = c

ClipStep(call) ==
  LET rI == Clip(memI, call, Variant)
      rP == PerChannel(memP, call, Variant)
      rQ == PerChannel(memI, call, Variant)
      dgn == Degenerate(call)
  IN /\ memI' = rI.mem /\ memP' = rP.mem /\ memQ' = rQ.mem
     /\ clr' = [c \in Chan |-> IF ~dgn /\ c <= call.C THEN clr[c] /\ call.f[c] = "IN" ELSE clr[c]]
     /\ flags' = [twin  |-> rI.outs = rP.outs /\ rI.outs = rQ.outs,
                  idem  |-> dgn \/ \A c \in 1..call.C : (clr[c] /\ call.f[c] = "IN") => (rI.outs[c].same /\ rI.mem[c].v = "Z"),
                  deg   |-> dgn => (rI.mem = memI /\ rI.outs = <<>>),
                  indep |-> \A c \in 1..Len(rI.outs) : rI.outs[c].fr[1] = c /\ OnlyOwn(c, rI.outs[c].src)]
     /\ sched' = IF Gen THEN Append(sched, CallStr(call)) ELSE sched

Zero == /\ memI' = [c \in Chan |-> ZeroCell] /\ memP' = memI' /\ memQ' = memI'
        /\ clr' = [c \in Chan |-> TRUE] /\ flags' = AllTrue
        /\ sched' = IF Gen THEN Append(sched, "Z") ELSE sched

ClipFrame == System = "clip" /\ steps < Depth /\ steps' = steps + 1 /\ UNCHANGED gainVars
CZero == ClipFrame /\ Zero
CCall == ClipFrame /\ \E call \in NonDegCalls : ClipStep(call)
CDegenerate == ClipFrame /\ \E call \in DegCalls : ClipStep(call)

GSet(g) == LET r == SetGain(dg.gain, g, GV) IN
           /\ dg' = [dg EXCEPT !.gain = r.gain] /\ want' = IF GainLegal(g) THEN g ELSE want
           /\ UNCHANGED <<d0, o0, og>>
GDecode(p) == LET r0 == Decode(d0, p, GV)
                  rg == Decode(dg, p, GV)
              IN d0' = r0.d /\ dg' = rg.d /\ o0' = r0.obs /\ og' = rg.obs /\ UNCHANGED want
GReset == d0' = ResetDec(d0) /\ dg' = ResetDec(dg) /\ UNCHANGED <<o0, og, want>>
GainFrame == System = "gain" /\ steps < Depth /\ steps' = steps + 1 /\ UNCHANGED clipVars /\ UNCHANGED sched
GSetLegal == GainFrame /\ \E g \in GainGrid : \E s \in {0, 1} : LET v == IF s = 1 THEN 0 - g ELSE g IN GainLegal(v) /\ GSet(v)
GSetIllegal == GainFrame /\ \E g \in GainGrid : \E s \in {0, 1} : LET v == IF s = 1 THEN 0 - g ELSE g IN ~GainLegal(v) /\ GSet(v)
GDec == GainFrame /\ \E p \in Pkts : GDecode(p)
GRst == GainFrame /\ GReset

Next == CZero \/ CCall \/ CDegenerate \/ GSetLegal \/ GSetIllegal \/ GDec \/ GRst
Spec == Init /\ [][Next]_vars

\* ---- invariants, soft clipper
TwinEquiv == flags.twin /\ memI = memP /\ memI = memQ
ZeroMemIdempotent == flags.idem
DegenerateNoEffect == flags.deg
Independence == flags.indep /\ \A c \in Chan : OnlyOwn(c, memI[c].h)
ClearedImpliesZero == \A c \in Chan : clr[c] => memI[c].v = "Z"
MemMeaning == \A c \in Chan : (memI[c].v = "NZ") <=> (Len(memI[c].h) > 0 /\ memI[c].h[Len(memI[c].h)][2] = "OVO")
\* ---- invariants, gain
GainOnlyAmplitude == og = o0
GainStaysLegal == GainLegal(dg.gain) /\ d0.gain = 0 /\ dg.gain = want
\* ---- behaviour generation
Emit == (Gen /\ Len(sched) = Depth) => PrintT(<<"SCHED", ToString(sched)>>)
=============================================================================
