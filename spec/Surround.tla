------------------------------ MODULE Surround ------------------------------
(***************************************************************************)
(* Growth module G03: how the multistream encoder of libopus divides the    *)
(* requested bitrate between its streams and which settings it imposes on   *)
(* them at every encode call (src/opus_multistream_encoder.c:               *)
(* surround_rate_allocation, ambisonics_rate_allocation, rate_allocation,   *)
(* the control part of opus_multistream_encode_native, lfe_stream).         *)
(*                                                                         *)
(* Unlike the property modules this one describes the implementation: the   *)
(* integer arithmetic is transcribed (C semantics: `/' truncates towards    *)
(* zero, `>>' of a negative value floors), and the design theorems further   *)
(* down say what that arithmetic guarantees.  A disagreement between this    *)
(* module and the code is SPEC-DRIFT, except for the clauses of properties   *)
(* C10 (valid multistream packet, prescribed layout) and C05 (return value,  *)
(* buffer limit, CBR size) that SurroundTrace keeps apart.                   *)
(*                                                                         *)
(* The layouts come from MS!Family (RFC 7845 / 8486), the byte budget from   *)
(* Cvbr (instanced as CV), the per-stream bitrate clamp from EncCtl.         *)
(*                                                                         *)
(* R6: every intermediate stays below 2^31 for bitrates up to 300000 x 255:  *)
(* the code's 64-bit product 256*X/total is evaluated as 8*X/(total/32)      *)
(* (total is a multiple of 32, X < 2^28), channel_rate*512>>8 as             *)
(* 2*channel_rate, channel_rate*32>>8 as floor(channel_rate/8).  Where the   *)
(* CODE overflows 32 bits is stated by Int32Safe (the model itself never     *)
(* does).                                                                   *)
(***************************************************************************)
EXTENDS MS
CV == INSTANCE Cvbr

\* C division (truncation towards zero) by a positive divisor
CDiv(a, b) == IF a >= 0 THEN a \div b ELSE 0 - ((0 - a) \div b)

-----------------------------------------------------------------------------
(* Objects.  An encoder object, as far as rate allocation is concerned:     *)
(*   nch  input channels (the bitrate ctl clamps to 500..300000 per input    *)
(*        channel, whether or not the channel is coded)                      *)
(*   S, C streams / coupled streams (coupled first)                          *)
(*   lfe  0-based index of the LFE stream, -1: none                          *)
(*   mt   mapping type: "surround" (family 1, more than 2 channels),         *)
(*        "ambi" (family 2), "none" (everything else: families 0 and 255,    *)
(*        family 1 with 1 or 2 channels, plain multistream encoders, and the *)
(*        multistream encoder inside a projection encoder)                   *)
MT_NONE == "none"
MT_SURR == "surround"
MT_AMBI == "ambi"

NoObject == [ok |-> FALSE]
Object(nch, S, C, map, lfe, mt) ==
  [ok |-> TRUE, nch |-> nch, S |-> S, C |-> C, map |-> map, lfe |-> lfe, mt |-> mt]

\* opus_multistream_surround_encoder_create(family f, channels ch): families 0, 1, 2, 255
SurroundObject(f, ch) ==
  LET y == IF f = 3 THEN Reject ELSE Family(f, ch) IN
  IF ~y.ok THEN NoObject
  ELSE Object(ch, y.S, y.C, y.map, LfeStream(f, ch),
              IF f = 1 /\ ch > 2 THEN MT_SURR ELSE IF f = 2 THEN MT_AMBI ELSE MT_NONE)

\* opus_projection_ambisonics_encoder_create(family 3): a plain multistream encoder behind a mixing matrix
ProjectionObject(f, ch) ==
  LET y == IF f = 3 THEN Family(3, ch) ELSE Reject IN
  IF ~y.ok THEN NoObject ELSE Object(ch, y.S, y.C, y.map, -1, MT_NONE)

\* opus_multistream_encoder_create with an explicit layout
PlainObject(ch, S, C, map) ==
  IF ValidLayoutEnc(ch, S, C, map) THEN Object(ch, S, C, map, -1, MT_NONE) ELSE NoObject

\* opus_multistream_surround_encoder_get_size = opus_multistream_encoder_get_size(S, C) plus, for more than two
\* channels (whatever the family), 120 window samples and one pre-emphasis word of 4 bytes per channel
SurroundExtraBytes(ch) == IF ch > 2 THEN ch * (120 * 4 + 4) ELSE 0

\* ... and it answers 0 exactly for the (family, channels) pairs the create call refuses, except that it does not
\* apply the 255-channel limit to family 255 (create does, before asking for the size)
SurroundSizeNonZero(f, ch) == SurroundObject(f, ch).ok \/ (f = 255 /\ ch > 255)

StreamChannels(L, s) == IF s < L.C THEN 2 ELSE 1            \* s 0-based

\* OPUS_SET_BITRATE on the multistream object: what is stored (CV!MsClamp), and its domain
IsStoredBitrate(b, nch) == b \in {OPUS_AUTO, OPUS_BITRATE_MAX} \/ (b >= 500 * nch /\ b <= 300000 * nch)
MsSetBitrate(v, nch) == IF v = OPUS_AUTO \/ v = OPUS_BITRATE_MAX \/ v > 0
                        THEN [ok |-> TRUE, br |-> CV!MsClamp(v, nch)] ELSE [ok |-> FALSE]

-----------------------------------------------------------------------------
(* surround_rate_allocation (also used for mapping type "none").            *)
(* b is the stored bitrate setting, Fs the sampling rate, fsz the frame      *)
(* size in samples.                                                          *)
NbLfe(L)       == IF L.lfe # -1 THEN 1 ELSE 0
NbCoupled(L)   == L.C
NbUncoupled(L) == L.S - L.C - NbLfe(L)
NbNormal(L)    == 2 * NbCoupled(L) + NbUncoupled(L)          \* coded channels that are not the LFE

PacketRate(Fs, fsz) == Max(50, Fs \div fsz)                  \* IMAX(50, Fs/frame_size)
ChannelOffset(Fs, fsz) == 40 * PacketRate(Fs, fsz)           \* "enough bits per channel for coding band energy"

SurroundTotal(L, b, Fs, fsz) ==
  IF b = OPUS_AUTO THEN NbNormal(L) * (ChannelOffset(Fs, fsz) + Fs + 10000) + 8000 * NbLfe(L)
  ELSE IF b = OPUS_BITRATE_MAX THEN NbNormal(L) * 300000 + NbLfe(L) * 128000
  ELSE b

LfeOffset(total, Fs, fsz) == Min(total \div 20, 3000) + 15 * PacketRate(Fs, fsz)

CoupledRatioQ8 == 512        \* "coupled streams get twice the mono rate after the offset is allocated"
LfeRatioQ8     == 32         \* "LFE gets 1/8 the bits of mono"
TotalQ8(L) == 256 * NbUncoupled(L) + CoupledRatioQ8 * NbCoupled(L) + LfeRatioQ8 * NbLfe(L)

\* all intermediate quantities of one allocation, computed once
SurroundParams(L, b, Fs, fsz) ==
  LET nn   == NbNormal(L)
      nl   == NbLfe(L)
      ns   == NbCoupled(L) + NbUncoupled(L)
      co   == ChannelOffset(Fs, fsz)
      tot  == SurroundTotal(L, b, Fs, fsz)
      lo   == LfeOffset(tot, Fs, fsz)
      so0  == CDiv(CDiv(tot - co * nn - lo * nl, nn), 2)
      so   == Max(0, Min(20000, so0))
      x    == tot - lo * nl - so * ns - co * nn
      cr   == CDiv(8 * x, TotalQ8(L) \div 32)               \* 256*(opus_int64)x/total
  IN [tot |-> tot, co |-> co, lo |-> lo, so0 |-> so0, so |-> so, x |-> x, cr |-> cr]

CoupledRate(p) == 2 * p.co + Max(0, p.so + 2 * p.cr)         \* channel_rate*coupled_ratio>>8 = 2*channel_rate
MonoRate(p)    == p.co + Max(0, p.so + p.cr)
LfeRate(p)     == Max(0, p.lo + (p.cr \div 8))               \* channel_rate*lfe_ratio>>8 = floor(channel_rate/8)

SurroundRateOf(L, p, s) ==                                   \* s 0-based
  IF s < L.C THEN CoupledRate(p) ELSE IF s # L.lfe THEN MonoRate(p) ELSE LfeRate(p)

\* where the code's own 32-bit arithmetic is exact: channel_rate*coupled_ratio and channel_rate*lfe_ratio
\* are int products (the division is done in 64 bits)
Int32Safe(L, p) ==
  /\ L.C > 0 => (p.cr <= 4194303 /\ p.cr >= -4194304)             \* channel_rate*512 fits an int
  /\ L.lfe # -1 => (p.cr <= 67108863 /\ p.cr >= -67108864)         \* channel_rate*32 fits an int

-----------------------------------------------------------------------------
(* ambisonics_rate_allocation: every stream the same.                      *)
AmbiTotal(L, b, Fs, fsz) ==
  IF b = OPUS_AUTO THEN (L.C + L.S) * (Fs + (60 * Fs) \div fsz) + L.S * 15000
  ELSE IF b = OPUS_BITRATE_MAX THEN (L.S + L.C) * 320000
  ELSE b
AmbiRate(L, b, Fs, fsz) == AmbiTotal(L, b, Fs, fsz) \div L.S

-----------------------------------------------------------------------------
(* rate_allocation: the floor of 500 b/s, the sum.                          *)
RATE_FLOOR == 500

(* One allocation, computed once: c, m, f = the rate of a coupled, a mono,   *)
(* the LFE stream (floor applied; in an ambisonics object all three are the   *)
(* same), sum = rate_sum, tot = the total being divided, p = the intermediate *)
(* quantities of the surround allocation (absent for ambisonics).            *)
Alloc(L, b, Fs, fsz) ==
  IF L.mt = MT_AMBI
  THEN LET t == AmbiTotal(L, b, Fs, fsz)
           r == Max(t \div L.S, RATE_FLOOR) IN
       [c |-> r, m |-> r, f |-> r, sum |-> L.S * r, tot |-> t]
  ELSE LET p == SurroundParams(L, b, Fs, fsz)
           c == Max(CoupledRate(p), RATE_FLOOR)
           m == Max(MonoRate(p), RATE_FLOOR)
           f == Max(LfeRate(p), RATE_FLOOR) IN
       [c |-> c, m |-> m, f |-> f, sum |-> NbCoupled(L) * c + NbUncoupled(L) * m + NbLfe(L) * f,
        tot |-> p.tot, p |-> p]

RateOfStream(L, a, s) == IF s < L.C THEN a.c ELSE IF s # L.lfe THEN a.m ELSE a.f      \* s 0-based
\* the rates handed to OPUS_SET_BITRATE of the streams (a sequence, stream s at index s+1)
Rates(L, b, Fs, fsz) == LET a == Alloc(L, b, Fs, fsz) IN [i \in 1..L.S |-> RateOfStream(L, a, i - 1)]
RateSum(L, b, Fs, fsz) == Alloc(L, b, Fs, fsz).sum

\* what the stream then stores and OPUS_GET_BITRATE reports (the documented clamp, EncCtl)
StoredRate(L, s, rate) == CV!ClampBitrate(rate, StreamChannels(L, s))

-----------------------------------------------------------------------------
(* The control part of opus_multistream_encode_native.                     *)
SmallestPacket(L, Fs, fsz) == CV!SmallestPacket(L.S, Fs \div fsz = 10)

\* the byte budget of the packet: with VBR off the requested rate limits it (rounded down)
PacketBudget(L, b, vbr, Fs, fsz, maxb) ==
  LET den == (24 * Fs) \div fsz IN                          \* 3*8*Fs/frame_size
  IF vbr # 0 THEN maxb
  ELSE IF b = OPUS_AUTO THEN Min(maxb, (3 * RateSum(L, b, Fs, fsz)) \div den)
  ELSE IF b = OPUS_BITRATE_MAX THEN maxb
  ELSE Min(maxb, Max(SmallestPacket(L, Fs, fsz), (3 * b) \div den))

PacketBudgetExplicit(L, b, Fs, fsz, maxb) == PacketBudget(L, b, 0, Fs, fsz, maxb)

\* with VBR off the last stream is told to fill what is left: curr_max*(8*Fs/frame_size);
\* tot = bytes taken by the streams before it.  (A product <= 0 is refused by the stream: rate kept.)
LastStreamCbrRate(L, budget, tot, Fs, fsz, kept) ==
  LET cm == Min(budget - tot, CV!MsFrameTmp)
      v  == cm * ((8 * Fs) \div fsz) IN
  IF v > 0 THEN StoredRate(L, L.S - 1, v) ELSE kept

\* the bitrates the streams report after an encode call that reached the stream loop
StreamBitrates(L, b, vbr, Fs, fsz, maxb, totBeforeLast) ==
  LET r == Rates(L, b, Fs, fsz) IN
  [i \in 1..L.S |->
     LET k == StoredRate(L, i - 1, r[i]) IN
     IF vbr = 0 /\ i = L.S
     THEN LastStreamCbrRate(L, PacketBudget(L, b, vbr, Fs, fsz, maxb), totBeforeLast, Fs, fsz, k)
     ELSE k]

(* Surround only: one bandwidth is forced on every stream, chosen from the   *)
(* bitrate SETTING per input channel.  The code uses the stored value as it   *)
(* is - the sentinels OPUS_AUTO (-1000) and OPUS_BITRATE_MAX (-1) are not     *)
(* resolved, so both force narrowband (theorem SentinelsForceNarrowband;      *)
(* recorded as an observation, it is what the implementation does).          *)
EquivRate(L, b, Fs, fsz) ==
  b - (IF fsz * 50 < Fs THEN 60 * (Fs \div fsz - 50) * L.nch ELSE 0)
ForcedBandwidth(L, b, Fs, fsz) ==
  LET e == EquivRate(L, b, Fs, fsz) IN
  IF e > 10000 * L.nch THEN BW_FB ELSE IF e > 7000 * L.nch THEN BW_SWB
  ELSE IF e > 5000 * L.nch THEN BW_WB ELSE BW_NB

\* what a stream forced to bandwidth w signals when it codes with the MDCT layer alone at rate Fs
NyquistClamp(w, Fs) ==
  IF Fs <= 8000 THEN Min(w, BW_NB) ELSE IF Fs <= 12000 THEN Min(w, BW_MB)
  ELSE IF Fs <= 16000 THEN Min(w, BW_WB) ELSE IF Fs <= 24000 THEN Min(w, BW_SWB) ELSE w
CeltBandwidth(w, Fs) == LET n == NyquistClamp(w, Fs) IN IF n = BW_MB THEN BW_WB ELSE n

\* the mode / channel count forced on stream s at every encode call (OPUS_AUTO: left alone)
ForcedMode(L, s) ==
  IF L.mt = MT_AMBI THEN MODE_CELT
  ELSE IF L.mt = MT_SURR /\ s < L.C THEN MODE_CELT
  ELSE OPUS_AUTO
ForcedChannels(L, s) == IF L.mt = MT_SURR /\ s < L.C THEN 2 ELSE OPUS_AUTO
IsLfe(L, s) == s = L.lfe

-----------------------------------------------------------------------------
(* Design theorems (checked by Surround_mc over the layout x rate grid).    *)
(* a is Alloc(L, b, Fs, fsz) throughout.                                     *)

\* every stream gets at least the floor; non-LFE streams of the surround allocation at least the
\* energy offset per coded channel
FloorTheorem(L, a, Fs, fsz) ==
  LET co == ChannelOffset(Fs, fsz) IN
  /\ a.c >= RATE_FLOOR /\ a.m >= RATE_FLOOR /\ a.f >= RATE_FLOOR
  /\ L.mt # MT_AMBI => (a.c >= 2 * co /\ a.m >= co)

\* ... and for every bitrate the ctl can store, rate_allocation's floor of 500 never is the binding one:
\* an ambisonics stream gets at least 500 x channels / streams, the LFE stream keeps most of its offset
FloorNeverBinds(L, a) ==
  IF L.mt = MT_AMBI THEN a.tot \div L.S >= RATE_FLOOR
  ELSE CoupledRate(a.p) >= RATE_FLOOR /\ MonoRate(a.p) >= RATE_FLOOR /\ LfeRate(a.p) >= RATE_FLOOR

\* offsets are never negative and stay inside their clamps
OffsetsTheorem(L, a) ==
  L.mt # MT_AMBI =>
    /\ a.p.co >= 2000 /\ a.p.co <= 16000
    /\ a.p.so >= 0 /\ a.p.so <= 20000
    /\ a.p.lo >= 750 /\ a.p.lo <= 3000 + 6000
    /\ a.p.tot > 0

(* The sum.  need = what the offsets alone cost.  With at least that much    *)
(* requested, the streams together get the request minus a rounding loss of   *)
(* less than one unit per ratio step; with less, every stream sits on its     *)
(* minimum and the sum EXCEEDS the request.                                   *)
SumSlack(L) == IF L.mt = MT_AMBI THEN L.S ELSE NbUncoupled(L) + 2 * NbCoupled(L) + 2 * NbLfe(L)
SumTheorem(L, a) ==
  IF L.mt = MT_AMBI
  THEN IF a.tot >= RATE_FLOOR * L.S THEN a.sum <= a.tot /\ a.sum > a.tot - SumSlack(L)
       ELSE a.sum = RATE_FLOOR * L.S
  ELSE LET p == a.p
           need == p.co * NbNormal(L) + p.lo * NbLfe(L) IN
       IF p.tot >= need
       THEN /\ p.x >= 0 /\ p.cr >= 0
            /\ a.sum <= p.tot /\ a.sum > p.tot - SumSlack(L)
       ELSE /\ p.so = 0 /\ p.x < 0 /\ p.cr <= 0          \* (C division truncates: -1 < 256x/total < 0 gives 0)
            /\ a.sum = p.co * NbNormal(L) + NbLfe(L) * Max(RATE_FLOOR, LfeRate(p))
            /\ a.sum > p.tot - p.lo * NbLfe(L)

\* the coded ratios: above the offsets a coupled stream gets exactly twice what a mono stream gets,
\* the LFE stream an eighth (rounded down) on top of its own offset
RatioTheorem(L, a) ==
  (L.mt # MT_AMBI /\ a.p.cr >= 0) =>
    LET p == a.p IN
    /\ CoupledRate(p) - 2 * p.co - p.so = 2 * (MonoRate(p) - p.co - p.so)
    /\ CoupledRate(p) > MonoRate(p)
    /\ LfeRate(p) = p.lo + (MonoRate(p) - p.co - p.so) \div 8
    /\ (L.lfe # -1 /\ p.cr >= 8 * 9000) => LfeRate(p) < MonoRate(p)

\* ambisonics: mono and coupled streams get the same
AmbiEqualTheorem(L, a) == L.mt = MT_AMBI => (a.c = a.m /\ a.m = a.f)

\* every stream's rate is monotone in the requested total (a1 for the smaller, a2 for the larger explicit
\* request), up to `slack' units lost where an offset steps up
Monotone(L, a1, a2, slack) ==
  /\ a2.c >= a1.c - slack /\ a2.m >= a1.m - slack /\ a2.f >= a1.f - slack
  \* (the sum follows the request to within SumSlack, so it can fall back by as much and no more)
  /\ a2.sum > a1.sum - Max(slack + 1, SumSlack(L))

\* after the per-stream clamp no stream has more than before, none less than the floor
StoredTheorem(L, a) ==
  LET kc == CV!ClampBitrate(a.c, 2) km == CV!ClampBitrate(a.m, 1) kf == CV!ClampBitrate(a.f, 1) IN
  /\ kc >= RATE_FLOOR /\ kc <= 600000 /\ kc <= a.c
  /\ km >= RATE_FLOOR /\ km <= 300000 /\ km <= a.m
  /\ kf >= RATE_FLOOR /\ kf <= 300000 /\ kf <= a.f

\* the sequence handed to the streams has that sum
SequenceTheorem(L, b, Fs, fsz) ==
  LET q == Rates(L, b, Fs, fsz) IN Len(q) = L.S /\ SumSeq(q) = RateSum(L, b, Fs, fsz)

\* OPUS_AUTO / OPUS_BITRATE_MAX resolve to generous totals and yet force narrowband on surround streams
SentinelsForceNarrowband(L, b, Fs, fsz) ==
  (L.mt = MT_SURR /\ b \in {OPUS_AUTO, OPUS_BITRATE_MAX}) => ForcedBandwidth(L, b, Fs, fsz) = BW_NB

\* the forced bandwidth grows with an explicit request
BandwidthMonotone(L, b1, b2, Fs, fsz) ==
  (L.mt = MT_SURR /\ b1 > 0 /\ b1 <= b2) => ForcedBandwidth(L, b1, Fs, fsz) <= ForcedBandwidth(L, b2, Fs, fsz)

\* with VBR off the budget can hold the smallest packet whenever the buffer can
BudgetTheorem(L, b, Fs, fsz, maxb) ==
  maxb >= SmallestPacket(L, Fs, fsz) =>
    LET g == PacketBudget(L, b, 0, Fs, fsz, maxb) IN
    /\ g <= maxb
    /\ g >= SmallestPacket(L, Fs, fsz)

\* where the code's own 32-bit products are exact (Surround_mc: every object of the regular run; refuted
\* for plain layouts with 29 or more input channels on one coupled stream at 300 kb/s per input)
SafeTheorem(L, a) == L.mt # MT_AMBI => Int32Safe(L, a.p)
=============================================================================
