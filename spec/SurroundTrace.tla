---------------------------- MODULE SurroundTrace ----------------------------
(***************************************************************************)
(* Validation of recorded executions of real surround / ambisonics /        *)
(* projection / plain multistream encoders against module Surround (growth   *)
(* module G03).  Stateless: one initial state per recorded execution; the     *)
(* history inside an execution (bitrate / VBR / bandwidth requests, direct    *)
(* pokes at a stream, resets, encode calls) is folded by TLC.                 *)
(*                                                                         *)
(* Event kinds (field k):                                                  *)
(*  b  an execution starts (no obligation; lets a crash be attributed)       *)
(*  x  one execution: kind surr | penc | enc, f, ch, fs, app, ok/err of the   *)
(*     create call, what it handed back (S, C, map), lfe0 = LFE flag of every  *)
(*     stream right after creation, st = the steps:                           *)
(*       B v r   OPUS_SET_BITRATE(v) on the multistream object, r = return     *)
(*       V v r   OPUS_SET_VBR(v)         W v r   OPUS_SET_BANDWIDTH(v)         *)
(*       P s v r OPUS_SET_BITRATE(v) on stream s directly                      *)
(*       R r     OPUS_RESET_STATE                                              *)
(*       E q mb n g so sh gb p9 bw md fm lf fc   one encode call of q x 2.5 ms *)
(*               with max_data_bytes mb: n = return value, g = guard bytes     *)
(*               intact, so / sh = recorded split and header bytes, then per    *)
(*               stream after the call: OPUS_GET_BITRATE, the bitrate the       *)
(*               stream encoder worked with, its bandwidth, mode, forced mode,  *)
(*               LFE flag, forced channel count; mgb/mgr OPUS_GET_BITRATE of    *)
(*               the multistream object                                        *)
(*                                                                         *)
(* Every obligation has a name; Judge returns the names that failed, in two   *)
(* classes:                                                                 *)
(*  prop   clauses of listed properties - C10: the create call accepts         *)
(*         exactly the supported (family, channels) / valid layouts and hands  *)
(*         back the prescribed layout; every packet is S sub-packets of equal  *)
(*         (and the requested) duration.  C05: return value in 1..mb (or        *)
(*         BUFFER_TOO_SMALL for a buffer below SmallPerStream bytes per         *)
(*         stream), nothing written behind the buffer, with VBR off the one     *)
(*         size within a byte of round(bitrate x duration / 8) (the reading     *)
(*         of CvbrTrace), OPUS_BITRATE_MAX fills the buffer.                    *)
(*         A failure is a VIOLATION.                                           *)
(*  model  conformance with Surround: per-stream bitrates equal the model's     *)
(*         exactly, LFE flag / forced mode / forced channels / forced            *)
(*         bandwidth as modelled.  A failure is SPEC-DRIFT.                     *)
(***************************************************************************)
EXTENDS Surround, Json, IOUtils, TLC
CONSTANTS Strict, SmallPerStream, Explain
VARIABLE l

Tr == ndJsonDeserialize(IOEnv.TRACE)

Yes(x) == x = 1
Fails(cond, name) == IF cond THEN {} ELSE {name}
Verdict(p, m) == [prop |-> p, model |-> m]
Both(a, b) == Verdict(a.prop \cup b.prop, a.model \cup b.model)
Clean == Verdict({}, {})

-----------------------------------------------------------------------------
(* the create call *)
ObjectFor(e) ==
  IF e.kind = "surr" THEN SurroundObject(e.f, e.ch)
  ELSE IF e.kind = "penc" THEN ProjectionObject(e.f, e.ch)
  ELSE IF e.kind = "enc" THEN PlainObject(e.ch, e.S0, e.C0, e.map0)
  ELSE NoObject

CreateVerdict(e, L) ==
  Verdict(
    Fails(Yes(e.ok) = L.ok, "C10:create-accepts-iff-supported")
    \cup (IF Yes(e.ok) /\ L.ok
          THEN Fails(e.S = L.S /\ e.C = L.C /\ e.map = L.map, "C10:prescribed-layout")
          ELSE {}),
    (IF Yes(e.ok) /\ L.ok /\ e.S = L.S
     THEN Fails(Len(e.lfe0) = L.S /\ \A s \in 1..L.S : Yes(e.lfe0[s]) = IsLfe(L, s - 1), "lfe-flag-at-creation")
     ELSE {})
    \* opus_multistream_surround_encoder_get_size: 0 iff unsupported, else the plain multistream size plus the
    \* surround analysis memory (SurroundExtraBytes)
    \cup (IF e.kind = "surr"
          THEN Fails((e.szs > 0) = SurroundSizeNonZero(e.f, e.ch), "surround-get-size-zero-iff-unsupported")
               \cup (IF L.ok /\ Yes(e.ok) THEN Fails(e.szs = e.szm + SurroundExtraBytes(e.ch), "surround-get-size") ELSE {})
          ELSE {}))

-----------------------------------------------------------------------------
(* settings tracked through the history *)
InitM == [br |-> OPUS_AUTO, vbr |-> 1, ubw |-> OPUS_AUTO]
BwLegal(v) == v = OPUS_AUTO \/ (v >= BW_NB /\ v <= BW_FB)

StepSet(L, M, s) ==
  IF s.o = "B"
  THEN LET y == MsSetBitrate(s.v, L.nch) IN
       [M |-> IF s.r = OK /\ y.ok THEN [M EXCEPT !.br = y.br] ELSE M,
        v |-> Verdict({}, Fails((s.r = OK) = y.ok /\ (~y.ok => s.r = BAD_ARG), "set-bitrate-return"))]
  ELSE IF s.o = "V"
  THEN [M |-> IF s.r = OK /\ s.v \in {0, 1} THEN [M EXCEPT !.vbr = s.v] ELSE M,
        v |-> Verdict({}, Fails((s.r = OK) = (s.v \in {0, 1}), "set-vbr-return"))]
  ELSE IF s.o = "W"
  THEN [M |-> IF s.r = OK /\ BwLegal(s.v) THEN [M EXCEPT !.ubw = s.v] ELSE M,
        v |-> Verdict({}, Fails((s.r = OK) = BwLegal(s.v), "set-bandwidth-return"))]
  ELSE [M |-> M, v |-> Clean]                  \* P (overwritten at the next encode call), R, skip: no effect on what is asserted

-----------------------------------------------------------------------------
(* one encode call *)
RetOK(s, S) ==
  \/ s.n >= 1 /\ s.n <= s.mb
  \/ s.n = BUFFER_TOO_SMALL /\ s.mb < SmallPerStream * S

SubParse(s, i, S) == SplitParse(s.n, s.so, s.sh, i, S)
Tiny(r) == \A i \in 1..r.count : r.sizes[i] <= 1        \* nothing coded: the low-budget path keeps stale mode and bandwidth

Abs2(x) == IF x < 0 THEN 0 - x ELSE x

\* CV!MsCbrSizesQ without the product bitrate x q (R6: bitrates reach 300000 x 255):
\* bitrate x q / 3200 = (bitrate div 3200) x q + (bitrate mod 3200) x q / 3200, and rounding commutes with adding an integer
MsCbrSizesSafe(br, q, mb, S) ==
  {Min(mb, Max(CV!SmallestPacket(S, q = 40), (br \div 3200) * q + n)) : n \in CV!Nearest((br % 3200) * q, 3200)}

\* C05, with VBR off: the packet size
CbrVerdict(L, M, s) ==
  IF M.vbr = 0 /\ s.n > 0
  THEN (IF M.br > 0
        THEN Fails(\E x \in MsCbrSizesSafe(M.br, s.q, s.mb, L.S) : Abs2(s.n - x) <= 1, "C05:cbr-size")
        ELSE {})
       \cup (IF M.br = OPUS_BITRATE_MAX THEN Fails(s.n = s.mb \/ s.n >= 1276 * L.S, "C05:max-fills-buffer") ELSE {})
  ELSE {}

\* the bitrate the stream encoder worked with: the stored one, or with VBR off the bytes it was allowed
CbrWorkingRate(L, rate, Fs, fsz, currMax) ==
  LET fr12 == (12 * Fs) \div fsz
      cb   == Min(CV!CodeCbrBytes(rate, Fs, fsz), Min(1276, currMax)) IN
  (cb * fr12 * 8) \div 12

ModelVerdict(L, M, s, fs) ==
  LET S    == L.S
      fsz  == (s.q * fs) \div 400
      is100 == fs \div fsz = 10
      want == StreamBitrates(L, M.br, M.vbr, fs, fsz, s.mb, s.so[S])
      bud  == PacketBudget(L, M.br, M.vbr, fs, fsz, s.mb)
      fbw  == ForcedBandwidth(L, M.br, fs, fsz)
  IN
  Fails(Len(s.gb) = S /\ \A i \in 1..S : s.gb[i] = want[i], "stream-bitrates")
  \cup Fails(M.vbr = 1 => \A i \in 1..S : s.p9[i] = want[i], "working-bitrate-vbr")
  \cup Fails(M.vbr = 0 => \A i \in 1..S :
               s.p9[i] = CbrWorkingRate(L, want[i], fs, fsz, CV!CurrMax(bud, s.so[i], i - 1, S, is100)), "working-bitrate-cbr")
  \* the multistream object's own OPUS_GET_BITRATE is the sum of what its streams report
  \cup Fails(s.mgr = OK /\ s.mgb = SumSeq(s.gb), "multistream-get-bitrate-is-sum")
  \cup Fails(\A i \in 1..S : Yes(s.lf[i]) = IsLfe(L, i - 1), "lfe-flag")
  \cup Fails(\A i \in 1..S : s.fm[i] = ForcedMode(L, i - 1), "forced-mode")
  \cup Fails(\A i \in 1..S : s.fc[i] = ForcedChannels(L, i - 1), "forced-channels")
  \cup UNION {
         LET r == SubParse(s, i, S) IN
         IF ~r.ok \/ Tiny(r) THEN {}
         ELSE Fails(s.md[i] = TocMode(r.toc), "mode-peek-vs-toc")
              \cup Fails(IsLfe(L, i - 1) => (TocMode(r.toc) = MODE_CELT /\ TocBandwidth(r.toc) = BW_NB /\ s.bw[i] = BW_NB), "lfe-celt-narrowband")
              \cup Fails(ForcedMode(L, i - 1) = MODE_CELT => TocMode(r.toc) = MODE_CELT, "forced-mode-in-toc")
              \cup Fails(ForcedChannels(L, i - 1) = 2 => TocStereo(r.toc), "forced-stereo-in-toc")
              \cup Fails((L.mt = MT_SURR /\ ~IsLfe(L, i - 1) /\ TocMode(r.toc) = MODE_CELT) =>
                           (TocBandwidth(r.toc) = CeltBandwidth(fbw, fs) /\ s.bw[i] = CeltBandwidth(fbw, fs)), "surround-equal-bandwidth")
              \cup Fails((L.mt # MT_SURR /\ M.ubw # OPUS_AUTO /\ TocMode(r.toc) = MODE_CELT) =>
                           TocBandwidth(r.toc) = CeltBandwidth(M.ubw, fs), "user-bandwidth-kept")
         : i \in 1..S }

EncodeVerdict(L, M, s, fs) ==
  LET S == L.S
      split == s.n > 0 /\ s.n <= s.mb /\ SplitOK(s.n, s.so, s.sh, S)
      prop == Fails(Yes(s.g), "C05:guard-bytes")
              \cup Fails(RetOK(s, S), "C05:return-value")
              \cup (IF s.n > 0 /\ s.n <= s.mb
                    THEN Fails(split, "C10:multistream-packet")
                         \cup (IF split THEN Fails(Dur48Of(SubParse(s, 1, S)) = 120 * s.q, "C10:packet-duration") ELSE {})
                    ELSE {})
              \cup CbrVerdict(L, M, s)
  IN Verdict(prop, IF split THEN ModelVerdict(L, M, s, fs) ELSE {})

-----------------------------------------------------------------------------
RECURSIVE Fold(_, _, _, _)
Fold(e, L, i, M) ==
  IF i > Len(e.st) THEN Clean
  ELSE LET s == e.st[i] IN
       IF s.o = "E" THEN Both(EncodeVerdict(L, M, s, e.fs), Fold(e, L, i + 1, M))
       ELSE LET y == StepSet(L, M, s) IN Both(y.v, Fold(e, L, i + 1, y.M))

Judge(e) ==
  IF e.k = "b" THEN Clean
  ELSE IF e.k # "x" THEN Verdict({"unknown-event"}, {})
  ELSE LET L == ObjectFor(e)
           c == CreateVerdict(e, L) IN
       IF Yes(e.ok) /\ L.ok /\ c.prop = {} THEN Both(c, Fold(e, L, 1, InitM)) ELSE c

CaseOK ==
  LET r == Judge(Tr[l]) IN
  IF Explain
  THEN (r.prop \cup r.model # {}) => PrintT("WHY " \o ToString(l) \o " prop " \o ToString(r.prop) \o " model " \o ToString(r.model))
  ELSE r.prop = {} /\ (Strict => r.model = {})

Init == l \in 1..Len(Tr)
Next == UNCHANGED l
Spec == Init /\ [][Next]_l
=============================================================================
