----------------------------- MODULE Surround_mc -----------------------------
(***************************************************************************)
(* TLC evaluates the Surround design theorems over                          *)
(*   every object the surround / ambisonics / projection create calls make:  *)
(*   family 0 (1, 2 channels), family 1 (1..8), family 2 and 3 (ambisonics    *)
(*   orders 0..MaxOrder / 1..MaxOrder, with and without the non-diegetic      *)
(*   pair), family 255 (Fam255), and hand-picked plain layouts (Plain) whose  *)
(*   input channel count exceeds the coded channel count                     *)
(*   x every sampling rate x every frame size                                *)
(*   x a bitrate grid: the two sentinels, per-channel rates PerCh times the   *)
(*     channel count plus small offsets Offs, a dense stretch above the        *)
(*     minimum, and +-Win around every threshold of the allocation.            *)
(* One variable; the root fans out into configurations, a configuration into  *)
(* grid points (initial-state enumeration is single-threaded).                *)
(* With Gen = TRUE the points of the coarser plan grid (every frame size at     *)
(* 48 kHz, the sizes PlanQOther at the other rates) are printed, with the      *)
(* regimes they hit, for replay through the real encoders (harness/surround.c)*)
(* and as vacuity guard (the check demands that every regime was printed).    *)
(***************************************************************************)
EXTENDS Surround, TLC
CONSTANTS MaxOrder, Fam255, FsMc, QMc, PerCh, Offs, DenseLow, Win, Deltas, MonoSlack,
          MaxBs, PlanPerCh, PlanQOther, Gen, Unsafe
VARIABLE st
vars == <<st>>

-----------------------------------------------------------------------------
(* objects *)
Alt01(n) == [i \in 1..n |-> (i - 1) % 2]
\* plain multistream encoders: more input channels than coded ones (the bitrate clamp follows the inputs)
Plain == {
  [ch |-> 3,  S |-> 1, C |-> 1, map |-> <<0, 1, 0>>],
  [ch |-> 6,  S |-> 2, C |-> 1, map |-> <<0, 1, 2, 255, 2, 0>>],
  [ch |-> 5,  S |-> 4, C |-> 1, map |-> <<0, 1, 2, 3, 4>>],
  [ch |-> 12, S |-> 3, C |-> 3, map |-> <<0, 1, 2, 3, 4, 5, 0, 1, 2, 3, 4, 5>>],
  [ch |-> 27, S |-> 1, C |-> 1, map |-> Alt01(27)],
  [ch |-> 28, S |-> 1, C |-> 1, map |-> Alt01(28)],
  [ch |-> 255, S |-> 2, C |-> 0, map |-> Alt01(255)] }
\* ... and where the code's 32-bit products overflow (only with Unsafe = TRUE: the witness run)
PlainUnsafe == {
  [ch |-> 29, S |-> 1, C |-> 1, map |-> Alt01(29)],
  [ch |-> 255, S |-> 1, C |-> 1, map |-> Alt01(255)] }

Cases ==
  {[kind |-> "surr", f |-> 0, ch |-> c] : c \in {1, 2}} \cup
  {[kind |-> "surr", f |-> 1, ch |-> c] : c \in 1..8} \cup
  {[kind |-> "surr", f |-> 2, ch |-> c] : c \in AmbiCounts(0..MaxOrder)} \cup
  {[kind |-> "surr", f |-> 255, ch |-> c] : c \in Fam255} \cup
  {[kind |-> "penc", f |-> 3, ch |-> c] : c \in AmbiCounts(1..MaxOrder)} \cup
  {[kind |-> "enc", f |-> -1, ch |-> h.ch, S |-> h.S, C |-> h.C, map |-> h.map] : h \in (IF Unsafe THEN PlainUnsafe ELSE Plain)}

ObjectOf(c) ==
  IF c.kind = "surr" THEN SurroundObject(c.f, c.ch)
  ELSE IF c.kind = "penc" THEN ProjectionObject(c.f, c.ch)
  ELSE PlainObject(c.ch, c.S, c.C, c.map)

-----------------------------------------------------------------------------
(* the bitrate grid of one configuration *)
Lo(L) == 500 * L.nch
Hi(L) == 300000 * L.nch
Clip(L, v) == Max(Lo(L), Min(Hi(L), v))

\* where the allocation changes regime (explicit bitrate)
Thresholds(L, Fs, fsz) ==
  LET r  == PacketRate(Fs, fsz)
      co == ChannelOffset(Fs, fsz)
      nn == NbNormal(L) nl == NbLfe(L)
      short == 60 * (Fs \div fsz - 50) * L.nch IN
  {Lo(L), Hi(L), 60000,                                           \* LFE offset saturates at total/20 = 3000
   co * nn + (3000 + 15 * r) * nl,                                  \* the offsets alone (LFE offset saturated)
   ((co * nn + 15 * r * nl) * 20) \div 19,                          \* ... (LFE offset = total/20)
   40000 * nn + co * nn + (3000 + 15 * r) * nl,                     \* stream offset saturates at 20000
   5000 * L.nch, 7000 * L.nch, 10000 * L.nch,                       \* forced bandwidth steps
   5000 * L.nch + short, 7000 * L.nch + short, 10000 * L.nch + short,
   300000 * (L.S + L.C)}                                            \* per-stream clamps

Explicit(L, Fs, fsz) ==
  {Clip(L, pc * L.nch + o) : pc \in PerCh, o \in Offs} \cup
  {Clip(L, Lo(L) + d) : d \in 0..DenseLow} \cup
  {Clip(L, t + d - Win) : t \in Thresholds(L, Fs, fsz), d \in 0..(2 * Win)}
Grid(L, Fs, fsz) == {OPUS_AUTO, OPUS_BITRATE_MAX} \cup Explicit(L, Fs, fsz)

PlanGrid(L, Fs, fsz) ==
  {OPUS_AUTO, OPUS_BITRATE_MAX} \cup
  {Clip(L, pc * L.nch + o) : pc \in PlanPerCh, o \in {0, 1}} \cup
  {Clip(L, t + d - 1) : t \in Thresholds(L, Fs, fsz), d \in 0..2}

-----------------------------------------------------------------------------
Init == st = [m |-> "root"]
Next ==
  \/ /\ st.m = "root"
     /\ \E c \in Cases, Fs \in FsMc, q \in QMc :
          /\ ObjectOf(c).ok
          /\ st' = [m |-> "cfg", c |-> c, L |-> ObjectOf(c), Fs |-> Fs, q |-> q]
  \/ /\ st.m = "cfg"
     /\ \E b \in Grid(st.L, st.Fs, (st.q * st.Fs) \div 400) :
          st' = [m |-> "pt", c |-> [kind |-> st.c.kind, f |-> st.c.f, ch |-> st.c.ch], L |-> st.L,
                 Fs |-> st.Fs, q |-> st.q, b |-> b]
Spec == Init /\ [][Next]_vars

-----------------------------------------------------------------------------
PtL   == st.L
PtFsz == (st.q * st.Fs) \div 400

\* every object is one the encoder accepts, and its LFE stream is a mono stream after the coupled ones
ObjectTheorems ==
  st.m = "cfg" =>
    LET L == st.L IN
    /\ L.ok /\ L = ObjectOf(st.c) /\ ValidLayoutEnc(L.nch, L.S, L.C, L.map)
    /\ CV!MsEncCreateOK(st.Fs, L.nch, L.S, L.C, APP_AUDIO)
    /\ L.lfe # -1 => (L.mt = MT_SURR /\ L.lfe = L.S - 1 /\ L.lfe >= L.C)
    /\ L.mt = MT_SURR => (L.nch \in 3..8 /\ L.S + L.C = L.nch)
    /\ L.mt = MT_AMBI => L.S + L.C = L.nch
    /\ NbNormal(L) >= 1 /\ NbUncoupled(L) >= 0 /\ TotalQ8(L) % 32 = 0 /\ TotalQ8(L) > 0
    /\ PtFsz \in CV!FrameSizes(st.Fs)

RateTheorems ==
  st.m = "pt" =>
    LET L == PtL Fs == st.Fs fsz == PtFsz b == st.b a == Alloc(L, b, Fs, fsz) IN
    /\ IsStoredBitrate(b, L.nch)
    /\ FloorTheorem(L, a, Fs, fsz)
    /\ OffsetsTheorem(L, a)
    /\ SumTheorem(L, a)
    /\ RatioTheorem(L, a)
    /\ AmbiEqualTheorem(L, a)
    /\ StoredTheorem(L, a)
    /\ FloorNeverBinds(L, a)
    /\ L.S <= 8 => SequenceTheorem(L, b, Fs, fsz)
    /\ SentinelsForceNarrowband(L, b, Fs, fsz)
    /\ b <= 0 => \A mb \in MaxBs : BudgetTheorem(L, b, Fs, fsz, mb)
    /\ b > 0 =>
         /\ \A mb \in MaxBs : mb >= SmallestPacket(L, Fs, fsz) =>       \* (BudgetTheorem without re-evaluating the allocation)
               LET g == Min(mb, Max(SmallestPacket(L, Fs, fsz), (3 * b) \div ((24 * Fs) \div fsz))) IN
               g = PacketBudgetExplicit(L, b, Fs, fsz, mb) /\ g <= mb /\ g >= SmallestPacket(L, Fs, fsz)
         /\ \A d \in Deltas :
              LET b2 == Min(b + d, Hi(L)) IN
              /\ Monotone(L, a, Alloc(L, b2, Fs, fsz), MonoSlack)
              /\ BandwidthMonotone(L, b, b2, Fs, fsz)

\* the code's own 32-bit products are exact on every object of the regular run ...
SafeTheorems == st.m = "pt" => SafeTheorem(PtL, Alloc(PtL, st.b, st.Fs, PtFsz))

\* strict monotonicity does not hold (witness run: this invariant must be violated)
StrictlyMonotone ==
  (st.m = "pt" /\ st.b > 0) =>
     \A d \in Deltas : Monotone(PtL, Alloc(PtL, st.b, st.Fs, PtFsz), Alloc(PtL, Min(st.b + d, Hi(PtL)), st.Fs, PtFsz), 0)

-----------------------------------------------------------------------------
(* regimes, for the plan and the vacuity guard *)
Regimes(L, b, Fs, fsz) ==
  (IF L.mt = MT_AMBI
   THEN {"ambi"} \cup (IF AmbiRate(L, b, Fs, fsz) < RATE_FLOOR THEN {"ambi-floor"} ELSE {})
   ELSE LET r == Alloc(L, b, Fs, fsz) p == r.p IN
        {L.mt}
        \cup (IF p.cr < 0 THEN {"minimum"} ELSE {"shared"})
        \cup (IF p.so = 20000 THEN {"so-sat"} ELSE IF p.so > 0 THEN {"so-mid"} ELSE {"so-zero"})
        \cup (IF L.lfe # -1 THEN {"lfe"} ELSE {})
        \cup (IF L.lfe # -1 /\ LfeRate(p) < RATE_FLOOR THEN {"lfe-floor"} ELSE {})
        \cup (IF L.C > 0 /\ r.c > 600000 THEN {"clamp-coupled"} ELSE {})
        \cup (IF r.m > 300000 THEN {"clamp-mono"} ELSE {})
        \cup (IF L.mt = MT_SURR THEN {"bw-" \o ToString(ForcedBandwidth(L, b, Fs, fsz))} ELSE {}))
  \cup (IF b = OPUS_AUTO THEN {"auto"} ELSE IF b = OPUS_BITRATE_MAX THEN {"max"} ELSE {"explicit"})
  \cup (IF L.nch > L.S + L.C THEN {"extra-inputs"} ELSE {})
  \cup (IF b \in {Clip(L, t + d - 1) : t \in Thresholds(L, Fs, fsz), d \in 0..2} THEN {"edge"} ELSE {})

Emit ==
  (Gen /\ st.m = "pt" /\ (st.Fs = 48000 \/ st.q \in PlanQOther) /\ st.b \in PlanGrid(PtL, st.Fs, PtFsz)) =>
     LET L == PtL c == st.c IN
     PrintT("PLAN " \o c.kind \o " " \o ToString(c.f) \o " " \o ToString(c.ch) \o " " \o ToString(L.S) \o " " \o ToString(L.C)
            \o " " \o ToString(st.Fs) \o " " \o ToString(st.q) \o " " \o ToString(st.b)
            \o " | " \o ToString(L.map) \o " | " \o ToString(Regimes(L, st.b, st.Fs, PtFsz)))
=============================================================================
