------------------------------ MODULE SymCodes ------------------------------
(***************************************************************************)
(* The three families of symbol codes of Opus that are defined by tables    *)
(* and counting arguments rather than by adaptive state (property C17):     *)
(*                                                                         *)
(*  1. the PVQ codebook enumeration  index <-> pulse vector  (celt/cwrs.c)  *)
(*  2. the Laplace-like code of the coarse energy            (laplace.c)    *)
(*  3. static inverse-CDF tables fed to ec_enc_icdf/ec_dec_icdf             *)
(*  4. the pulses <-> bits cache of the static mode          (rate.c/.h)    *)
(*                                                                         *)
(* Everything here is a constant-level operator; SymCodes_mc.tla checks the *)
(* theorems, SymTrace.tla judges recorded behaviour and exported tables.    *)
(* TLC integers are 32-bit and overflow is fatal (DESIGN R6): counts that   *)
(* may reach 2^32 are kept as pairs <<hi, lo>> in base 2^16 with hi          *)
(* saturating at 2^16 ("does not fit in 32 bits").                          *)
(***************************************************************************)
EXTENDS Integers, Sequences, FiniteSets

\* NB: no operator parameter here may be named like a VARIABLE of a module that extends this one
\* (st in SymCodes_mc, l in SymTrace): TLC then stops treating the big tables as constants and rebuilds
\* them at every reference.

\* ------------------------------------------------------------------------
\* small helpers
Abs(x) == IF x < 0 THEN -x ELSE x
Min(a, b) == IF a < b THEN a ELSE b
Max(a, b) == IF a > b THEN a ELSE b
RECURSIVE Pow2(_)
Pow2(n) == IF n = 0 THEN 1 ELSE 2 * Pow2(n - 1)
RECURSIVE SumAbs(_)
SumAbs(y) == IF y = <<>> THEN 0 ELSE Abs(Head(y)) + SumAbs(Tail(y))
RECURSIVE SumSq(_)
SumSq(y) == IF y = <<>> THEN 0 ELSE Head(y) * Head(y) + SumSq(Tail(y))
Zeros(n) == [j \in 1..n |-> 0]
\* floor(log2(x)) + 1 for x > 0 (EC_ILOG)
RECURSIVE ILog(_)
ILog(x) == IF x = 0 THEN 0 ELSE 1 + ILog(x \div 2)
IsPow2(x) == x > 0 /\ Pow2(ILog(x) - 1) = x

\* ------------------------------------------------------------------------
\* wide naturals
B16 == 65536
SAT == 65536                       \* hi = SAT: the value is >= 2^32
WZero == <<0, 0>>
WOne == <<0, 1>>
WAdd3(a, b, c) ==
  LET lo == a[2] + b[2] + c[2]
      hi == a[1] + b[1] + c[1] + lo \div B16
  IN IF hi >= SAT THEN <<SAT, 0>> ELSE <<hi, lo % B16>>
WAdd(a, b) == WAdd3(a, b, WZero)
Fits32(w) == w[1] < SAT
Fits31(w) == w[1] < 32768
NatOf(w) == w[1] * B16 + w[2]      \* only when Fits31(w)
WLess(a, b) == a[1] < b[1] \/ (a[1] = b[1] /\ a[2] < b[2])
WLeq(a, b) == ~WLess(b, a)
WSub(a, b) == IF a[2] >= b[2] THEN <<a[1] - b[1], a[2] - b[2]>> ELSE <<a[1] - b[1] - 1, a[2] + B16 - b[2]>>   \* a >= b, both < 2^32
WOf(x) == <<x \div B16, x % B16>>                                                                            \* 0 <= x < 2^31

\* ------------------------------------------------------------------------
\* 1. PVQ: counting
(* V(N,K) = number of integer vectors of dimension N with sum |y_j| = K.    *)
(* Splitting on the first coordinate being 0 / on removing one pulse gives  *)
(*   V(N,K) = V(N-1,K) + V(N,K-1) + V(N-1,K-1),  V(N,0) = 1, V(0,K>0) = 0.  *)
(* U(N,K) obeys the same recurrence with U(N,0) = 0 for N > 0, U(0,0) = 1.  *)
(* S(N,M) = sum of V(N-1,j) over j < M: the number of N-vectors with K      *)
(* pulses in total whose first coordinate has a given sign and more than    *)
(* K-M pulses.  (Theorems in SymCodes_mc: S = U, V(N,K) = U(N,K)+U(N,K+1).)  *)
NDim == 176        \* largest band of the static mode at its largest frame size
KDim == 130        \* at least 128 + 1 pulses, + 1 for U(N,K+1)

RECURSIVE BuildRow(_, _, _, _)
\* prev = row n-1, acc = row n for k = 0..m-1 (both 1-based sequences indexed k+1), kd = last column
BuildRow(prev, acc, m, kd) ==
  IF m > kd THEN acc
  ELSE BuildRow(prev, Append(acc, WAdd3(prev[m + 1], acc[m], prev[m])), m + 1, kd)
RECURSIVE BuildTab(_, _, _, _, _)
\* rows 0..nd of the recurrence X(n,k) = X(n-1,k) + X(n,k-1) + X(n-1,k-1) with X(n,0) = first for n > 0
BuildTab(rows, n, nd, kd, first) ==
  IF n > nd THEN rows
  ELSE BuildTab(Append(rows, BuildRow(rows[n], <<first>>, 1, kd)), n + 1, nd, kd, first)
Row0(kd) == [m \in 1..kd + 1 |-> IF m = 1 THEN WOne ELSE WZero]       \* X(0,0) = 1, X(0,k>0) = 0
VW == BuildTab(<<Row0(KDim)>>, 1, NDim, KDim, WOne)
RECURSIVE PrefixRow(_, _, _)
PrefixRow(vrow, acc, m) ==
  IF m > KDim THEN acc ELSE PrefixRow(vrow, Append(acc, WAdd(acc[m], vrow[m])), m + 1)
\* SW[n] is row n (n >= 1): S(n,m), m = 0..KDim.  (Built as a tuple from one reference to the V table:
\* a function constructor would be re-evaluated by TLC at every application.)
RECURSIVE BuildS(_, _, _)
BuildS(vw, rows, n) ==
  IF n > NDim THEN rows ELSE BuildS(vw, Append(rows, PrefixRow(vw[n], <<WZero>>, 1)), n + 1)
SW == BuildS(VW, <<>>, 1)
\* U by its recurrence for the rows the C table has (r < 15), all columns the table may have
UTabRows == 15
WideCols == 178
UWide == BuildTab(<<Row0(WideCols)>>, 1, UTabRows - 1, WideCols, WZero)

InDims(n, k) == n \in 0..NDim /\ k \in 0..KDim
\* U(N,K) as cwrs.c defines it: the number of N-vectors ... = sum of V(N-1,j) over j < K, U(0,K) = [K = 0]
\* (SymCodes_mc: this U obeys the recurrence, is symmetric, and agrees with UWide)
Uw(n, k) == IF n = 0 THEN (IF k = 0 THEN WOne ELSE WZero) ELSE SW[n][k + 1]
Vw(n, k) == VW[n + 1][k + 1]
Sw(n, m) == SW[n][m + 1]
\* native values, -1 when the value does not fit TLC's integers
Vn(n, k) == LET w == Vw(n, k) IN IF Fits31(w) THEN NatOf(w) ELSE -1
Sn(n, m) == LET w == Sw(n, m) IN IF Fits31(w) THEN NatOf(w) ELSE -1
Un(n, k) == LET w == Uw(n, k) IN IF Fits31(w) THEN NatOf(w) ELSE -1

\* ------------------------------------------------------------------------
\* 1. PVQ: the enumeration, from its combinatorial meaning
(* Vectors of dimension N with K pulses are ordered by their first           *)
(* coordinate, in the order  K, K-1, ..., 1, 0, -K, -(K-1), ..., -1          *)
(* (non-negative before negative, larger magnitude first), ties broken by    *)
(* the same order on the remaining N-1 coordinates.  The index of a vector   *)
(* is its rank.  For N = 1: +K has index 0, -K has index 1.                  *)
FirstRank(k, a) == IF a >= 0 THEN k - a ELSE 2 * k + 1 + a    \* position of value a in the list above
RECURSIVE VecLess(_, _)
VecLess(y, z) ==                                              \* y strictly before z (same N, same K)
  IF y = <<>> THEN FALSE
  ELSE IF Head(y) # Head(z)
       THEN LET k == SumAbs(y) IN FirstRank(k, Head(y)) < FirstRank(k, Head(z))
       ELSE VecLess(Tail(y), Tail(z))
AllVecs(n, k) == {y \in [1..n -> -k..k] : SumAbs(y) = k}      \* brute force, tiny n,k only
RankIn(S, y) == Cardinality({z \in S : VecLess(z, y)})          \* S = AllVecs(Len(y), SumAbs(y))
RankOf(y) == RankIn(AllVecs(Len(y), SumAbs(y)), y)

(* The same rank by counting: the vectors before y are those whose first     *)
(* coordinate comes earlier in the list, V(N-1, K-|a|) of them for each a,   *)
(* plus those that share the first coordinate and have a smaller tail.       *)
RECURSIVE IndexOf(_)
IndexOf(y) ==
  LET n == Len(y)
      k == SumAbs(y)
      a == Abs(y[1])
  IN IF n = 1 THEN (IF y[1] < 0 THEN 1 ELSE 0)
     ELSE (IF y[1] < 0 THEN Sn(n, k + 1) ELSE 0) + Sn(n, k - a) + IndexOf(Tail(y))

RECURSIVE VectorOf(_, _, _)
VectorOf(n, k, i) ==       \* defined for n >= 1, 0 <= i < V(n,k) < 2^31
  IF k = 0 THEN Zeros(n)
  ELSE IF n = 1 THEN <<IF i = 0 THEN k ELSE -k>>
  ELSE LET nonneg == i < Sn(n, k + 1)
           i1 == IF nonneg THEN i ELSE i - Sn(n, k + 1)
           a == CHOOSE a \in (IF nonneg THEN 0 ELSE 1)..k :
                   Sn(n, k - a) <= i1 /\ i1 < Sn(n, k - a + 1)
       IN <<IF nonneg THEN a ELSE -a>> \o VectorOf(n - 1, k - a, i1 - Sn(n, k - a))

\* The same two maps on wide indices, for codebooks with 2^31 <= V < 2^32 (SymCodes_mc: they agree with
\* IndexOf / VectorOf wherever those are defined).  A saturated S (>= 2^32) compares correctly with any index.
RECURSIVE IndexOfW(_)
IndexOfW(y) ==
  LET n == Len(y)
      k == SumAbs(y)
      a == Abs(y[1])
  IN IF n = 1 THEN (IF y[1] < 0 THEN WOne ELSE WZero)
     ELSE WAdd3(IF y[1] < 0 THEN Sw(n, k + 1) ELSE WZero, Sw(n, k - a), IndexOfW(Tail(y)))
RECURSIVE VectorOfW(_, _, _)
VectorOfW(n, k, iw) ==
  IF k = 0 THEN Zeros(n)
  ELSE IF n = 1 THEN <<IF iw = WZero THEN k ELSE -k>>
  ELSE LET nonneg == WLess(iw, Sw(n, k + 1))
           i1 == IF nonneg THEN iw ELSE WSub(iw, Sw(n, k + 1))
           a == CHOOSE a \in (IF nonneg THEN 0 ELSE 1)..k :
                   WLeq(Sw(n, k - a), i1) /\ WLess(i1, Sw(n, k - a + 1))
       IN <<IF nonneg THEN a ELSE -a>> \o VectorOfW(n - 1, k - a, WSub(i1, Sw(n, k - a)))

\* ------------------------------------------------------------------------
\* 1. PVQ: transcription of the table-walking algorithms of celt/cwrs.c
\*    (non-SMALL_FOOTPRINT), over the recurrence-defined U; small arguments only
UU(a, b) == Un(a, b)               \* CELT_PVQ_U(_n,_k) = ROW[min][max]; U is symmetric

RECURSIVE IcwrsLoop(_, _, _, _)
\* y 1-based; j is the C index (0-based) of the coordinate handled last, i,k as in the C loop
IcwrsLoop(y, j, i, k) ==
  IF j = 0 THEN i
  ELSE LET jj == j - 1
           n == Len(y)
           i1 == i + UU(n - jj, k)
           k1 == k + Abs(y[jj + 1])
           i2 == IF y[jj + 1] < 0 THEN i1 + UU(n - jj, k1 + 1) ELSE i1
       IN IcwrsLoop(y, jj, i2, k1)
Icwrs(y) == LET n == Len(y) IN IcwrsLoop(y, n - 1, IF y[n] < 0 THEN 1 ELSE 0, Abs(y[n]))

RECURSIVE DownWhile(_, _, _)
\* do p = U(--k, n) while (p > i): returns the k at which the loop stops
DownWhile(n, k, i) == IF UU(k - 1, n) > i THEN DownWhile(n, k - 1, i) ELSE k - 1
RECURSIVE ForDown(_, _, _)
\* for (p = row[k]; p > i; p = row[k]) k--;
ForDown(n, k, i) == IF UU(n, k) > i THEN ForDown(n, k - 1, i) ELSE k
RECURSIVE Cwrsi(_, _, _)
Cwrsi(n, k, i) ==
  IF n > 2 THEN
    IF k >= n THEN                                   \* "lots of pulses"
      LET p == UU(n, k + 1)
          neg == i >= p
          i1 == IF neg THEN i - p ELSE i
          q == UU(n, n)
          k1 == IF q > i1 THEN DownWhile(n, n, i1) ELSE ForDown(n, k, i1)
          i2 == i1 - (IF q > i1 THEN UU(k1, n) ELSE UU(n, k1))
          val == IF neg THEN -(k - k1) ELSE k - k1
      IN <<val>> \o Cwrsi(n - 1, k1, i2)
    ELSE                                             \* "lots of dimensions"
      LET p == UU(k, n)
          q == UU(k + 1, n)
      IN IF p <= i /\ i < q THEN <<0>> \o Cwrsi(n - 1, k, i - p)
         ELSE LET neg == i >= q
                  i1 == IF neg THEN i - q ELSE i
                  k1 == DownWhile(n, k, i1)
                  i2 == i1 - UU(k1, n)
                  val == IF neg THEN -(k - k1) ELSE k - k1
              IN <<val>> \o Cwrsi(n - 1, k1, i2)
  ELSE                                               \* n = 2, then n = 1
    LET p == 2 * k + 1
        neg == i >= p
        i1 == IF neg THEN i - p ELSE i
        k1 == (i1 + 1) \div 2
        i2 == IF k1 # 0 THEN i1 - (2 * k1 - 1) ELSE i1
        v0 == IF neg THEN -(k - k1) ELSE k - k1
        v1 == IF i2 # 0 THEN -k1 ELSE k1
    IN <<v0, v1>>

\* ------------------------------------------------------------------------
\* 2. Laplace code of the coarse energy (celt/laplace.c)
(* Scale 2^15.  Value 0 gets fs0.  Magnitude m >= 1 gets f_m + MINP for each *)
(* sign while f_m > 0, where f_1 = (2^15 - 2*NMIN*MINP - fs0)(16384-decay)   *)
(* >> 15 and f_{m+1} = 2 f_m decay >> 15 (geometric decay, the reserve of    *)
(* 2*NMIN*MINP keeps room for tail symbols); the negative value comes first. *)
(* After the last decaying magnitude every further value gets MINP, negative *)
(* and positive alternating, until the scale is used up; larger values are   *)
(* clamped to the last one of their sign.                                    *)
LAPLACE_MINP == 1                   \* the tail formulas below are written for MINP = 1
LAPLACE_NMIN == 16
LapTotal == 32768
LapDomain(fs0, decay) == fs0 \in 1..(LapTotal - 2 * LAPLACE_NMIN) /\ decay \in 0..16383
Freq1(fs0, decay) == ((LapTotal - 2 * LAPLACE_NMIN * LAPLACE_MINP - fs0) * (16384 - decay)) \div 32768
RECURSIVE LapLevelsRec(_, _, _, _)
LapLevelsRec(L, f, decay, acc) ==
  IF f = 0 THEN acc
  ELSE LapLevelsRec(L + 2 * f + 2 * LAPLACE_MINP, (2 * f * decay) \div 32768, decay, Append(acc, <<L, f>>))
\* <<L_m, f_m>> for the decaying magnitudes m = 1..n
LapLevels(fs0, decay) == LapLevelsRec(fs0, Freq1(fs0, decay), decay, <<>>)
\* everything that depends on the parameter pair only (evaluated once per pair by the callers):
\* lv levels, n their number, T first point of the tail region, mn/mp largest magnitude per sign
LapModel(fs0, decay) ==
  LET lv == LapLevels(fs0, decay)
      n == Len(lv)
      T == IF n = 0 THEN fs0 ELSE lv[n][1] + 2 * lv[n][2] + 2 * LAPLACE_MINP
  IN [fs0 |-> fs0, lv |-> lv, n |-> n, T |-> T,
      mn |-> n + (LapTotal - T + 1) \div 2, mp |-> n + (LapTotal - T) \div 2]
MClamp(m, v) == Max(-m.mn, Min(m.mp, v))
\* [fl, fh) of a value within the clamp range
MInterval(m, v) ==
  LET a == Abs(v) IN
  IF v = 0 THEN <<0, m.fs0>>
  ELSE IF a <= m.n THEN
         LET L == m.lv[a][1]  w == m.lv[a][2] + LAPLACE_MINP
         IN IF v < 0 THEN <<L, L + w>> ELSE <<L + w, L + 2 * w>>
  ELSE LET d == a - m.n - 1
       IN IF v < 0 THEN <<m.T + 2 * d, m.T + 2 * d + 1>> ELSE <<m.T + 2 * d + 1, m.T + 2 * d + 2>>
MEncode(m, v) == MInterval(m, MClamp(m, v))
\* the value whose region contains the point fm, located through the construction
MDecode(m, fm) ==
  IF fm < m.fs0 THEN 0
  ELSE IF fm < m.T THEN
         LET a == CHOOSE a \in 1..m.n : m.lv[a][1] <= fm /\ fm < m.lv[a][1] + 2 * (m.lv[a][2] + LAPLACE_MINP)
         IN IF fm < m.lv[a][1] + m.lv[a][2] + LAPLACE_MINP THEN -a ELSE a
  ELSE LET d == (fm - m.T) \div 2
       IN IF (fm - m.T) % 2 = 0 THEN -(m.n + 1 + d) ELSE m.n + 1 + d
LapInterval(fs0, decay, v) == MInterval(LapModel(fs0, decay), v)
LapEncode(fs0, decay, v) == MEncode(LapModel(fs0, decay), v)
LapDecode(fs0, decay, fm) == MDecode(LapModel(fs0, decay), fm)
LapClamp(fs0, decay, v) == MClamp(LapModel(fs0, decay), v)
\* the values in the order in which their regions are laid out: 0, -1, 1, -2, 2, ...
MOrder(m) == [j \in 1..(1 + m.mn + m.mp) |-> IF j = 1 THEN 0 ELSE IF j % 2 = 0 THEN -(j \div 2) ELSE j \div 2]
\* design theorem for one parameter pair (the point-wise part is MPointOK)
MStructureOK(m) ==
  LET ord == MOrder(m)
      I(j) == MInterval(m, ord[j])
  IN /\ m.T <= LapTotal - 2 * LAPLACE_MINP                        \* at least one tail value per sign
     /\ m.mn >= LAPLACE_NMIN /\ m.mp >= LAPLACE_NMIN              \* NMIN values guaranteed per sign
     /\ m.mn - m.mp \in {0, 1}
     /\ I(1)[1] = 0 /\ I(Len(ord))[2] = LapTotal
     /\ \A j \in 1..Len(ord) : I(j)[1] < I(j)[2]
     /\ \A j \in 1..Len(ord) - 1 : I(j)[2] = I(j + 1)[1]
     /\ \A v \in {-m.mn - 1, -m.mn - 40, m.mp + 1, m.mp + 40} :
           MEncode(m, v) = MInterval(m, IF v < 0 THEN -m.mn ELSE m.mp)
LapStructureOK(fs0, decay) == MStructureOK(LapModel(fs0, decay))
MPointOK(m, fm) ==
  LET v == MDecode(m, fm)
      iv == MInterval(m, v)
  IN -m.mn <= v /\ v <= m.mp /\ iv[1] <= fm /\ fm < iv[2]

\* ------------------------------------------------------------------------
\* 3. inverse-CDF tables
(* Symbol s (0-based) of a table t on the scale 2^ftb owns the points       *)
(* t[s] <= q < t[s-1] (t[-1] = 2^ftb): ec_dec_icdf walks the table until it  *)
(* meets an entry <= q, so the table must decrease strictly (every symbol    *)
(* codable) and end in 0 (the walk stops inside the table).                  *)
ValidIcdf(t, ftb) ==
  /\ Len(t) >= 1
  /\ t[Len(t)] = 0
  /\ \A j \in 1..Len(t) - 1 : t[j] > t[j + 1]
  /\ t[1] < Pow2(ftb)
IcdfSymbolAt(t, q) == Cardinality({j \in 1..Len(t) : t[j] > q})     \* for a valid table

\* ---- the p0/decay Laplace code (ec_laplace_encode_p0 / ec_laplace_decode_p0, celt/laplace.c) ----------------------
\* A sign symbol {0, +, -} with P(0) = p0 / 2^15 and the rest split evenly, then - for a non-zero value - the magnitude
\* minus one in base-7 "escape" digits: symbol 7 means "seven more, another symbol follows", a symbol 0..6 ends the value.
\* Both tables are computed at run time from (p0, decay); 15-bit scale.
P0Domain(p0, dc) == p0 \in 1..32766 /\ dc \in 0..32767
P0SignIcdf(p0) == <<32768 - p0, (32768 - p0) \div 2, 0>>
P0Icdf(dc) ==
  LET F[i \in 0..6] == IF i = 0 THEN Max(7, dc) ELSE Max(7 - i, (F[i - 1] * dc) \div 32768)
  IN [j \in 1..8 |-> IF j = 8 THEN 0 ELSE F[j - 1]]
\* the magnitude symbols of a value v # 0
P0Symbols(v) == LET m == Abs(v) - 1 IN [j \in 1..(m \div 7 + 1) |-> IF j <= m \div 7 THEN 7 ELSE m % 7]
\* what a decoder that reads symbols until one differs from 7 makes of a symbol string (and how many it consumed)
RECURSIVE P0Read(_, _, _)
P0Read(syms, j, acc) == IF j > Len(syms) THEN [mag |-> -1, used |-> j - 1]           \* ran off the end: not self-delimiting
                        ELSE IF syms[j] = 7 THEN P0Read(syms, j + 1, acc + 7)
                        ELSE [mag |-> acc + syms[j], used |-> j]
\* theorems: both tables are proper inverse CDFs on the 15-bit scale (so the symbol intervals tile the range), and the
\* magnitude code is a prefix-free bijection: the string written for v is read back as |v| and ends exactly there,
\* whatever follows it
P0TablesOK(p0, dc) == ValidIcdf(P0SignIcdf(p0), 15) /\ ValidIcdf(P0Icdf(dc), 15)
P0PrefixFree(v) == LET sy == P0Symbols(v)  rd == P0Read(sy \o <<3, 7, 0>>, 1, 1) IN
                   /\ rd.mag = Abs(v) /\ rd.used = Len(sy)
                   /\ \A j \in 1..Len(sy) - 1 : sy[j] = 7
                   /\ sy[Len(sy)] \in 0..6

\* ------------------------------------------------------------------------
\* 4. pulse cache of the static mode (celt/rate.h get_pulses, rate.c compute_pulse_cache)
MAX_PSEUDO == 40
BITRES == 3
GetPulses(j) == IF j < 8 THEN j ELSE (8 + (j % 8)) * Pow2(j \div 8 - 1)

(* log2_frac(val, frac) of celt/cwrs.c on a wide argument 0 < val < 2^32:   *)
(* a conservatively large log2 with frac fractional bits.                   *)
WILog(w) == IF w[1] > 0 THEN 16 + ILog(w[1]) ELSE ILog(w[2])
WIsPow2(w) == (w[1] = 0 /\ IsPow2(w[2])) \/ (w[2] = 0 /\ IsPow2(w[1]))
WDec(w) == IF w[2] > 0 THEN <<w[1], w[2] - 1>> ELSE <<w[1] - 1, B16 - 1>>
\* (w >> s) for 1 <= s <= 16, result < 2^16 when w < 2^(16+s)
WShr(w, s) == w[1] * Pow2(16 - s) + w[2] \div Pow2(s)
\* (v*v + 0x7FFF) >> 15 for v < 2^16, without leaving 31 bits
SqShift(v) == LET p == v \div 256  q == v % 256
              IN 2 * p * p + (512 * p * q + q * q + 32767) \div 32768
RECURSIVE Log2FracLoop(_, _, _)
Log2FracLoop(val, lg, frac) ==
  LET b == val \div B16
      lg1 == lg + b * Pow2(frac)
      v1 == SqShift((val + b) \div Pow2(b))
  IN IF frac > 0 THEN Log2FracLoop(v1, lg1, frac - 1)
     ELSE lg1 + (IF v1 > 32768 THEN 1 ELSE 0)
Log2Frac(w, frac) ==
  LET lg == WILog(w) IN
  IF WIsPow2(w) THEN (lg - 1) * Pow2(frac)
  ELSE LET val == IF lg > 16 THEN WShr(WDec(w), lg - 16) + 1 ELSE w[2] * Pow2(16 - lg)
       IN Log2FracLoop(val, (lg - 1) * Pow2(frac), frac)

\* the record c has the fields of the "cache" line written by hx_sym tables:
\*   nb, maxlm, size, ebands (nb+1), logn (nb), index ((maxlm+2)*nb), bits (size), caps ((maxlm+1)*2*nb)
CacheN(c, lmp1, b) == ((c.ebands[b + 2] - c.ebands[b + 1]) * Pow2(lmp1)) \div 2     \* lmp1 = LM+1, b 0-based
CacheIdx(c, lmp1, b) == c.index[lmp1 * c.nb + b + 1]
CacheSlots(c) == {<<lmp1, b>> : lmp1 \in 0..c.maxlm + 1, b \in 0..c.nb - 1}
\* (N, K) the codec can ask the PVQ coder for: every band at every frame size and split level,
\* every pseudo-pulse count the cache holds (N = 1 bands carry a sign only, no PVQ index)
CacheReach(c) ==
  UNION { IF CacheIdx(c, s[1], s[2]) < 0 \/ CacheN(c, s[1], s[2]) < 2 THEN {}
          ELSE { <<CacheN(c, s[1], s[2]), GetPulses(j)>> : j \in 1..c.bits[CacheIdx(c, s[1], s[2]) + 1] }
          : s \in CacheSlots(c) }
CacheShapeOK(c) ==
  /\ Len(c.ebands) = c.nb + 1 /\ Len(c.index) = (c.maxlm + 2) * c.nb /\ Len(c.bits) = c.size
  /\ \A s \in CacheSlots(c) :
       LET idx == CacheIdx(c, s[1], s[2])  N == CacheN(c, s[1], s[2]) IN
       /\ (N = 0) = (idx = -1)
       /\ N > 0 => /\ idx \in 0..c.size - 1
                   /\ c.bits[idx + 1] \in 1..MAX_PSEUDO
                   /\ idx + c.bits[idx + 1] < c.size
\* bits never decrease with the pulse count.  (Not strictly: log2_frac rounds up to 1/8 bit, and e.g. N = 2
\* has V = 60 and V = 64 for K = 15 and 16, both costed 48/8 bit on the unchanged tree.)
CacheMonotone(c) ==
  \A s \in CacheSlots(c) :
    LET idx == CacheIdx(c, s[1], s[2])  N == CacheN(c, s[1], s[2]) IN
    N > 0 => \A j \in 1..c.bits[idx + 1] - 1 : c.bits[idx + 1 + j] <= c.bits[idx + 2 + j]
\* every cached count has a codebook that fits 32 bits, and its cost is log2 V in 1/8 bit, rounded
\* up as log2_frac does, minus one (the cache stores bits-1)
CacheBitsMatchV(c) ==
  \A s \in CacheSlots(c) :
    LET idx == CacheIdx(c, s[1], s[2])  N == CacheN(c, s[1], s[2]) IN
    N > 0 => \A j \in 1..c.bits[idx + 1] :
                /\ InDims(N, GetPulses(j) + 1)
                /\ Fits32(Vw(N, GetPulses(j)))
                /\ c.bits[idx + 1 + j] + 1 = Log2Frac(Vw(N, GetPulses(j)), BITRES)
\* the cache holds as many pseudo-pulse counts as fit in 32 bits (up to MAX_PSEUDO)
CacheMaximal(c) ==
  \A s \in CacheSlots(c) :
    LET idx == CacheIdx(c, s[1], s[2])  N == CacheN(c, s[1], s[2]) IN
    N > 0 => LET km == c.bits[idx + 1] IN
             km = MAX_PSEUDO \/ (InDims(N, GetPulses(km + 1)) => ~Fits32(Vw(N, GetPulses(km + 1))))

(* caps: the per-band maximum rate, computed by compute_pulse_cache from the *)
(* cache entry of the fully split band (transcription; all values small).    *)
FINE_OFFSET == 21
QTHETA_OFFSET == 4
QTHETA_OFFSET_TWOPHASE == 16
MAX_FINE_BITS == 8
RECURSIVE CapSplits(_, _, _, _, _, _)
\* the "regular splits" loop: kk = k of the C loop, n = i - LM0 iterations
CapSplits(mb, N, kk, n, logn, LM0) ==
  IF kk >= n THEN <<mb, N>>
  ELSE LET mb1 == 2 * mb
           offset == (logn + (LM0 + kk) * 8) \div 2 - QTHETA_OFFSET
           num == 459 * ((2 * N - 1) * offset + mb1)
           den == (2 * N - 1) * 512 - 459
           qb == Min((num + den \div 2) \div den, 57)
       IN CapSplits(mb1 + qb, 2 * N, kk + 1, n, logn, LM0)
CapOf(c, i, C, j) ==        \* i = LM, C = channels, j = band (0-based)
  LET w == c.ebands[j + 2] - c.ebands[j + 1]
      logn == c.logn[j + 1]
  IN IF w * Pow2(i) = 1 THEN (4 * (C * (1 + MAX_FINE_BITS) * 8)) \div (C * w * Pow2(i)) - 64
     ELSE
      LET N0 == IF w > 2 THEN w \div 2 ELSE IF w <= 1 THEN w * Pow2(Min(i, 1)) ELSE w
          LM0 == IF w > 2 THEN -1 ELSE IF w <= 1 THEN Min(i, 1) ELSE 0
          idx == CacheIdx(c, LM0 + 1, j)
          mb0 == c.bits[idx + 1 + c.bits[idx + 1]] + 1
          sp == CapSplits(mb0, N0, 0, i - LM0, logn, LM0)
          N == sp[2]
          mb1 == IF C = 2 THEN
                   LET m2 == 2 * sp[1]
                       offset == (logn + i * 8) \div 2 - (IF N = 2 THEN QTHETA_OFFSET_TWOPHASE ELSE QTHETA_OFFSET)
                       ndof == 2 * N - 1 - (IF N = 2 THEN 1 ELSE 0)
                       num == (IF N = 2 THEN 512 ELSE 487) * (m2 + ndof * offset)
                       den == ndof * 512 - (IF N = 2 THEN 512 ELSE 487)
                       qb == Min((num + den \div 2) \div den, IF N = 2 THEN 64 ELSE 61)
                   IN m2 + qb
                 ELSE sp[1]
          ndof2 == C * N + (IF C = 2 /\ N > 2 THEN 1 ELSE 0)
          off2 == (logn + i * 8) \div 2 - FINE_OFFSET + (IF N = 2 THEN 2 ELSE 0)
          num2 == mb1 + ndof2 * off2
          den2 == (ndof2 - 1) * 8
          qb2 == Min((num2 + den2 \div 2) \div den2, MAX_FINE_BITS)
          mb2 == mb1 + C * qb2 * 8
      IN (4 * mb2) \div (C * w * Pow2(i)) - 64
CacheCapsMatch(c) ==
  /\ Len(c.caps) = (c.maxlm + 1) * 2 * c.nb
  /\ \A i \in 0..c.maxlm, C \in 1..2, j \in 0..c.nb - 1 :
       c.caps[(i * 2 + (C - 1)) * c.nb + j + 1] = CapOf(c, i, C, j)

\* ------------------------------------------------------------------------
\* the U table of cwrs.c: u = [nw, off (15 row offsets into the data), hi, lo]
\* ROW[r][c] = DATA[off[r] + c]; row r holds the columns r..URowMax(u, r)
URowMax(u, r) == IF r < UTabRows - 1 THEN u.off[r + 2] - u.off[r + 1] + r ELSE u.nw - 1 - u.off[r + 1]
UWord(u, r, cc) == <<u.hi[u.off[r + 1] + cc + 1], u.lo[u.off[r + 1] + cc + 1]>>
UTabShapeOK(u) ==
  /\ Len(u.off) = UTabRows /\ Len(u.hi) = u.nw /\ Len(u.lo) = u.nw /\ u.off[1] = 0
  /\ \A r \in 0..UTabRows - 1 : /\ u.off[r + 1] + r >= 0 /\ URowMax(u, r) >= r /\ URowMax(u, r) <= WideCols
                             /\ u.off[r + 1] + URowMax(u, r) + 1 <= u.nw
  /\ \A r \in 0..UTabRows - 2 : URowMax(u, r + 1) <= URowMax(u, r)
UTableMatchesRecurrence(u) ==
  \A r \in 0..UTabRows - 1 : \A cc \in r..URowMax(u, r) : UWord(u, r, cc) = UWide[r + 1][cc + 1]
\* every U(a,b), a <= n, b <= k+1, that icwrs/cwrsi may read for (n,k) lies inside the table:
\* the rows used are r = min(a,b) <= min(n,k+1), and in each of them the largest column used is
\* max(n,k+1) (reached with a = n or b = k+1)
UTableCovers(u, n, k) ==
  LET m == Min(n, k + 1)  cc == Max(n, k + 1) IN
  m <= UTabRows - 1 /\ \A r \in 0..m : cc <= URowMax(u, r)
=============================================================================
