---------------------------- MODULE SymCodes_mc ----------------------------
(* Exhaustive evaluation of the SymCodes theorems.                          *)
(* The parameter sets that belong to the code under test - the energy-model *)
(* pairs, the (N,K) the static mode can request, the U table - are not      *)
(* frozen here: they are read from the tables that hx_symtu exported from   *)
(* the library built from the tree under test (IOEnv.TABLES, NDJSON).       *)
EXTENDS SymCodes, Json, IOUtils, TLC
CONSTANTS NSmall, KSmall, VSmall,    \* Bijection: every index of every (n,k), 2<=n<=NSmall, k<=KSmall, V<=VSmall
          RankMaxV, RankMaxN,        \* brute-force rank meaning for V <= RankMaxV, n <= RankMaxN
          LapBlock,                  \* points per successor state in the Laplace point check
          GridP, GridD               \* additional (fs0,decay) = (128 p, 64 d) grid
VARIABLE st

Tab == ndJsonDeserialize(IOEnv.TABLES)
RecOf(kind) == Tab[CHOOSE j \in 1..Len(Tab) : Tab[j].k = kind]
CacheRec == RecOf("cache")
UtabRec == RecOf("utab")
Pairs == UNION { {<<Tab[j].t[2 * b - 1] * 128, Tab[j].t[2 * b] * 64>> : b \in 1..Len(Tab[j].t) \div 2}
                 : j \in {j \in 1..Len(Tab) : Tab[j].k = "eprob"} }
GridPairs == {<<128 * p, 64 * d>> : p \in GridP, d \in GridD}
\* (a malformed cache is rejected by SymTrace; here it only empties the set, which the census shows)
Reach == IF CacheShapeOK(CacheRec) THEN CacheReach(CacheRec) ELSE {}
\* (an operator with parameters on purpose: TLC evaluates parameterless constant definitions before it
\* has cached the big tables of SymCodes, which would rebuild them at every reference)
SmallNKOf(ns, ks, vs) == {nk \in (2..ns) \X (1..ks) : Vn(nk[1], nk[2]) # -1 /\ Vn(nk[1], nk[2]) <= vs}

P0GridP == {1, 2, 3, 100, 4096, 16000, 16384, 30000, 32000, 32700, 32765, 32766}
P0GridD == {0, 1, 6, 7, 8, 9, 100, 4096, 16000, 16384, 24000, 30000, 32000, 32700, 32766, 32767}
P0MaxV == 200
St(t, a, b, i) == [t |-> t, a |-> a, b |-> b, i |-> i]
\* three levels so that the workers share all evaluation (Init is single-threaded): the root fans out
\* into one state per table row / (n,k) / reachable (N,K) / parameter pair, those into indices and point blocks
Level1 == {St("tab", n, 0, 0) : n \in 0..NDim}
           \cup {St("nk", nk[1], nk[2], -1) : nk \in SmallNKOf(NSmall, KSmall, VSmall)}
           \cup {St("reach", nk[1], nk[2], 0) : nk \in Reach}
           \cup {St("pair", p[1], p[2], -1) : p \in Pairs \cup GridPairs}
           \cup {St("p0", a, b, 0) : a \in P0GridP, b \in P0GridD}
           \cup {St("p0v", v, 0, 0) : v \in 1..P0MaxV}
Init == st = St("root", 0, 0, 0)
Next == \/ /\ st.t = "root"
           /\ st' \in Level1
        \/ /\ st.t = "nk"
           /\ \E i \in 0..Vn(st.a, st.b) - 1 : st' = St("idx", st.a, st.b, i)
        \/ /\ st.t = "pair"
           /\ \E blk \in 0..(LapTotal \div LapBlock) - 1 : st' = St("pts", st.a, st.b, blk)
Spec == Init /\ [][Next]_st

\* ---- counting theorems, one table row per state
UR == BuildTab(<<Row0(KDim)>>, 1, NDim, KDim, WZero)      \* U by its recurrence, full size
RowTheorems(n) ==
  \A k \in 0..KDim :
    /\ Uw(n, k) = UR[n + 1][k + 1]                           \* the prefix sums of V obey U's recurrence
    /\ Uw(n, k) = (IF n = 0 /\ k = 0 THEN WOne ELSE IF n = 0 \/ k = 0 THEN WZero
                   ELSE WAdd3(Uw(n - 1, k), Uw(n, k - 1), Uw(n - 1, k - 1)))
    /\ n <= UTabRows - 1 => UWide[n + 1][k + 1] = Uw(n, k)   \* the table rows, where both are tabulated
    /\ k <= UTabRows - 1 => UWide[k + 1][n + 1] = Uw(n, k)   \* and through symmetry up to column NDim
    /\ Vw(n, k) = (IF k = 0 THEN WOne ELSE IF n = 0 THEN WZero
                   ELSE WAdd3(Vw(n - 1, k), Vw(n, k - 1), Vw(n - 1, k - 1)))
    /\ n >= 1 => Sw(n, k) = Uw(n, k)                         \* U(N,M) = sum_{j<M} V(N-1,j)
    /\ k + 1 <= KDim => Vw(n, k) = WAdd(Uw(n, k), Uw(n, k + 1))
    /\ (n <= KDim /\ k <= NDim) => Uw(n, k) = Uw(k, n)       \* symmetry (the C table stores min,max)
    /\ (n = 1 /\ k >= 1) => Vn(n, k) = 2 /\ Un(n, k) = 1
    /\ (n = 2 /\ k >= 1) => Vn(n, k) = 4 * k /\ Un(n, k) = 2 * k - 1
    /\ (n = 3 /\ k >= 1) => Vn(n, k) = 4 * k * k + 2 /\ Un(n, k) = (2 * k - 2) * k + 1
    /\ (n = 4 /\ k >= 1) => 3 * Vn(n, k) = 8 * (k * k + 2) * k
    /\ (k >= 1 /\ Fits32(Vw(n, k)) /\ n >= 1) => WLess(Vw(n, k - 1), Vw(n, k)) \/ n = 1   \* more pulses, more codewords
URecurrence == st.t = "tab" => RowTheorems(st.a)

\* ---- the index is the rank in the stated order; the codebook has V(n,k) vectors
RankMeaning ==
  (st.t = "nk" /\ Vn(st.a, st.b) <= RankMaxV /\ st.a <= RankMaxN) =>
     LET S == AllVecs(st.a, st.b) IN
     /\ Cardinality(S) = Vn(st.a, st.b)
     /\ \A y \in S : RankIn(S, y) = IndexOf(y) /\ VectorOf(st.a, st.b, IndexOf(y)) = y

\* ---- index -> vector -> index is the identity, the vector has k pulses, and the table-walking
\*      algorithms of cwrs.c compute the same map
Bijection ==
  st.t = "idx" =>
     LET y == VectorOf(st.a, st.b, st.i) IN
     /\ Len(y) = st.a /\ SumAbs(y) = st.b
     /\ IndexOf(y) = st.i
     /\ VectorOfW(st.a, st.b, WOf(st.i)) = y /\ IndexOfW(y) = WOf(st.i)    \* the wide-index versions agree
CwrsiMatchesMeaning ==
  st.t = "idx" => LET y == Cwrsi(st.a, st.b, st.i) IN y = VectorOf(st.a, st.b, st.i) /\ Icwrs(y) = st.i

\* ---- every (N,K) the static mode can request has a codebook that fits 32 bits, and everything
\*      the algorithms read for it exists in the U table of the code
NoOverflow ==
  st.t = "reach" =>
     /\ st.a >= 2 /\ st.b >= 1 /\ InDims(st.a, st.b + 1)
     /\ Fits32(Vw(st.a, st.b)) /\ Fits32(Uw(st.a, st.b + 1))
     /\ UTabShapeOK(UtabRec) /\ UTableCovers(UtabRec, st.a, st.b)

\* ---- the p0/decay Laplace code: run-time tables are proper inverse CDFs over the whole parameter grid (incl. the
\*      corners 1, 32766 / 0, 7, 32767), the escape code is a prefix-free bijection for every magnitude
LaplaceP0 ==
  /\ st.t = "p0" => P0Domain(st.a, st.b) /\ P0TablesOK(st.a, st.b)
  /\ st.t = "p0v" => P0PrefixFree(st.a) /\ P0PrefixFree(-st.a)

\* ---- Laplace: regions tile [0, 2^15), none is empty, decode inverts encode
LaplaceTiles ==
  /\ st.t = "pair" => LapDomain(st.a, st.b) /\ LapStructureOK(st.a, st.b)
  /\ st.t = "pts" => LET m == LapModel(st.a, st.b) IN
                    \A fm \in st.i * LapBlock..(st.i + 1) * LapBlock - 1 : MPointOK(m, fm)

\* vacuity: printed once (from the state of table row 0; an ASSUME would be evaluated before TLC has
\* cached the tables); the check compares the numbers with what it expects
Census ==
  (st.t = "tab" /\ st.a = 0) =>
     PrintT(<<"CENSUS", Cardinality(SmallNKOf(NSmall, KSmall, VSmall)), Cardinality(Reach), Cardinality(Pairs), Cardinality(GridPairs)>>)
=============================================================================
