---------------------------- MODULE SymCodes_mc ----------------------------
(* Exhaustive evaluation of the SymCodes theorems.                          *)
(* The parameter sets that belong to the code under test - the energy-model *)
(* pairs, the (N,K) the static mode can request, the U table - are not      *)
(* frozen here: they are read from the tables that hx_symtu exported from   *)
(* the library built from the tree under test (IOEnv.TABLES, NDJSON).       *)
EXTENDS SymCodes, Json, IOUtils, TLC
CONSTANTS NSmall, KSmall, VSmall,    \* Bijection: every index of every (n,k), 2<=n<=NSmall, k<=KSmall, V<=VSmall
          RankMaxV, RankMaxN,        \* brute-force rank meaning for V <= RankMaxV, n <= RankMaxN
          LapBlock,                  \* points per successor state in the Laplace point check
          GridP, GridD               \* additional (fs0,decay) = (128 p, 64 d) grid
VARIABLE c

Tab == ndJsonDeserialize(IOEnv.TABLES)
RecOf(kind) == Tab[CHOOSE j \in 1..Len(Tab) : Tab[j].k = kind]
CacheRec == RecOf("cache")
UtabRec == RecOf("utab")
Pairs == UNION { {<<Tab[j].t[2 * b - 1] * 128, Tab[j].t[2 * b] * 64>> : b \in 1..Len(Tab[j].t) \div 2}
                 : j \in {j \in 1..Len(Tab) : Tab[j].k = "eprob"} }
GridPairs == {<<128 * p, 64 * d>> : p \in GridP, d \in GridD}
Reach == CacheReach(CacheRec)
SmallNK == {nk \in (2..NSmall) \X (1..KSmall) : Vn(nk[1], nk[2]) # -1 /\ Vn(nk[1], nk[2]) <= VSmall}

St(t, a, b, i) == [t |-> t, a |-> a, b |-> b, i |-> i]
\* two levels so that the workers share the enumeration (Init is single-threaded)
Init == c \in {St("tab", n, 0, 0) : n \in 0..NDim}
           \cup {St("nk", nk[1], nk[2], -1) : nk \in SmallNK}
           \cup {St("reach", nk[1], nk[2], 0) : nk \in Reach}
           \cup {St("pair", p[1], p[2], -1) : p \in Pairs \cup GridPairs}
Next == \/ /\ c.t = "nk"
           /\ \E i \in 0..Vn(c.a, c.b) - 1 : c' = St("idx", c.a, c.b, i)
        \/ /\ c.t = "pair"
           /\ \E blk \in 0..(LapTotal \div LapBlock) - 1 : c' = St("pts", c.a, c.b, blk)
Spec == Init /\ [][Next]_c

\* ---- counting theorems, one table row per state
RowTheorems(n) ==
  \A k \in 0..KDim :
    /\ Uw(n, k) = (IF n = 0 /\ k = 0 THEN WOne ELSE IF n = 0 \/ k = 0 THEN WZero
                   ELSE WAdd3(Uw(n - 1, k), Uw(n, k - 1), Uw(n - 1, k - 1)))
    /\ Vw(n, k) = (IF k = 0 THEN WOne ELSE IF n = 0 THEN WZero
                   ELSE WAdd3(Vw(n - 1, k), Vw(n, k - 1), Vw(n - 1, k - 1)))
    /\ n >= 1 => Sw(n, k) = Uw(n, k)                         \* U(N,M) = sum_{j<M} V(N-1,j)
    /\ k + 1 <= KDim => Vw(n, k) = WAdd(Uw(n, k), Uw(n, k + 1))
    /\ (n <= KDim /\ k <= NDim) => Uw(n, k) = Uw(k, n)       \* symmetry (the C table stores min,max)
    /\ (n = 1 /\ k >= 1) => Vn(n, k) = 2 /\ Un(n, k) = 1
    /\ (n = 2 /\ k >= 1) => Vn(n, k) = 4 * k /\ Un(n, k) = 2 * k - 1
    /\ (n = 3 /\ k >= 1) => Vn(n, k) = 4 * k * k + 2 /\ Un(n, k) = (2 * k - 2) * k + 1
    /\ (n = 4 /\ k >= 1) => 3 * Vn(n, k) = 8 * (k * k + 2) * k
    /\ (k >= 1 /\ Fits32(Vw(n, k)) /\ n >= 1) => WLess(Vw(n, k - 1), Vw(n, k)) \/ n = 1   \* more pulses, more codewords
URecurrence == c.t = "tab" => RowTheorems(c.a)

\* ---- the index is the rank in the stated order; the codebook has V(n,k) vectors
RankMeaning ==
  (c.t = "nk" /\ Vn(c.a, c.b) <= RankMaxV /\ c.a <= RankMaxN) =>
     LET S == AllVecs(c.a, c.b) IN
     /\ Cardinality(S) = Vn(c.a, c.b)
     /\ \A y \in S : RankIn(S, y) = IndexOf(y) /\ VectorOf(c.a, c.b, IndexOf(y)) = y

\* ---- index -> vector -> index is the identity, the vector has k pulses, and the table-walking
\*      algorithms of cwrs.c compute the same map
Bijection ==
  c.t = "idx" =>
     LET y == VectorOf(c.a, c.b, c.i) IN
     /\ Len(y) = c.a /\ SumAbs(y) = c.b
     /\ IndexOf(y) = c.i
CwrsiMatchesMeaning ==
  c.t = "idx" => LET y == Cwrsi(c.a, c.b, c.i) IN y = VectorOf(c.a, c.b, c.i) /\ Icwrs(y) = c.i

\* ---- every (N,K) the static mode can request has a codebook that fits 32 bits, and everything
\*      the algorithms read for it exists in the U table of the code
NoOverflow ==
  c.t = "reach" =>
     /\ c.a >= 2 /\ c.b >= 1 /\ InDims(c.a, c.b + 1)
     /\ Fits32(Vw(c.a, c.b)) /\ Fits32(Uw(c.a, c.b + 1))
     /\ UTableCovers(UtabRec, c.a, c.b)

\* ---- Laplace: regions tile [0, 2^15), none is empty, decode inverts encode
LaplaceTiles ==
  /\ c.t = "pair" => LapDomain(c.a, c.b) /\ LapStructureOK(c.a, c.b)
  /\ c.t = "pts" => LET m == LapModel(c.a, c.b) IN
                    \A fm \in c.i * LapBlock..(c.i + 1) * LapBlock - 1 : MPointOK(m, fm)

\* vacuity: printed once, the check compares the numbers with what it expects
Census == <<"CENSUS", Cardinality(SmallNK), Cardinality(Reach), Cardinality(Pairs), Cardinality(GridPairs)>>
ASSUME PrintT(Census)
=============================================================================
