------------------------------ MODULE SymTrace ------------------------------
(* Validation of what hx_sym recorded from the library under test against    *)
(* module SymCodes.  Stateless: one initial state per recorded line          *)
(* (IOEnv.TRACE, NDJSON).  IOEnv.TABLES names the table export of the same    *)
(* build (needed by lines that are judged against another table).             *)
(*                                                                            *)
(* Two invariants (DESIGN R1):                                                *)
(*   PropOK  the clauses of property C17 on the recorded observables          *)
(*   CaseOK  PropOK and, in addition, equality with the model's own answer    *)
(*           (the particular vector VectorOf gives, the particular interval   *)
(*           of the Laplace construction, caps, cache maximality)             *)
(* The check runs CaseOK; a line rejected by CaseOK but accepted by PropOK    *)
(* is reported as SPEC-DRIFT, one rejected by PropOK as a VIOLATION.          *)
EXTENDS SymCodes, Json, IOUtils, TLC
VARIABLE l

Tr == ndJsonDeserialize(IOEnv.TRACE)
Tab == ndJsonDeserialize(IOEnv.TABLES)
HasRec(kind) == \E j \in 1..Len(Tab) : Tab[j].k = kind
RecOf(kind) == Tab[CHOOSE j \in 1..Len(Tab) : Tab[j].k = kind]
SeqToSet(s) == {s[j] : j \in 1..Len(s)}

\* ---- PVQ, one index: decode_pulses on a buffer carrying the uniform integer i of V, encode_pulses
\*      of the result, both through the real range coder
PvqProp(e) ==
  /\ e.N >= 2 /\ e.K >= 1 /\ InDims(e.N, e.K + 1)
  /\ e.V = Vn(e.N, e.K)                  \* the buffer was crafted for the right alphabet size
  /\ e.i >= 0 /\ e.i < e.V
  /\ Len(e.y) = e.N /\ e.ov = 0          \* wrote exactly N coordinates
  /\ SumAbs(e.y) = e.K                   \* exactly K pulses
  /\ e.r = e.i                           \* and it encodes back to the index it came from
  /\ e.de = 0 /\ e.ee = 0                \* neither coder flagged an error
PvqModel(e) ==
  /\ e.y = VectorOf(e.N, e.K, e.i)
  /\ IndexOf(e.y) = e.i
  /\ e.same = 1                          \* the re-encoded bytes are the bytes that were decoded
  /\ e.yy = SumSq(e.y)                   \* return value of decode_pulses
\* V >= 2^31: TLC cannot hold the index natively; it is logged and handled as <<hi, lo>>
PvqWideProp(e) ==
  /\ e.N >= 2 /\ e.K >= 1 /\ InDims(e.N, e.K + 1)
  /\ <<e.Vh, e.Vl>> = Vw(e.N, e.K) /\ Fits32(Vw(e.N, e.K))
  /\ WLess(<<e.ih, e.il>>, <<e.Vh, e.Vl>>)
  /\ Len(e.y) = e.N /\ e.ov = 0 /\ SumAbs(e.y) = e.K
  /\ e.rok = 1 /\ e.rh = e.ih /\ e.rl = e.il
  /\ e.de = 0 /\ e.ee = 0
PvqWideModel(e) ==
  /\ e.y = VectorOfW(e.N, e.K, <<e.ih, e.il>>)
  /\ IndexOfW(e.y) = <<e.ih, e.il>>
  /\ e.same = 1 /\ e.yy = SumSq(e.y)
\* every index of one (N,K), counted by the harness
SweepProp(e) ==
  /\ e.N >= 2 /\ e.K >= 1 /\ InDims(e.N, e.K + 1)
  /\ e.V = Vn(e.N, e.K)
  /\ e.cnt = e.V /\ e.rt = e.V /\ e.bad = -1       \* every index came back
  /\ e.smin = e.K /\ e.smax = e.K                   \* every vector had K pulses
  /\ e.err = 0
SweepModel(e) == e.same = e.V

\* ---- Laplace, one parameter pair.  runs: the decoder's value at each of the 32768 points, as maximal
\*      runs <<v, lo, hi>>; enc: for v around the representable range <<v, vc, fl, fs, vd>> = value written
\*      back by the encoder, interval given to the range encoder, value decoded from the produced bytes
LapProp(e) ==
  LET R == e.runs
      vals == {R[j][1] : j \in 1..Len(R)}
      vmin == CHOOSE v \in vals : \A w \in vals : v <= w
      vmax == CHOOSE v \in vals : \A w \in vals : v >= w
  IN /\ Len(R) >= 1 /\ R[1][2] = 0 /\ R[Len(R)][3] = LapTotal        \* the regions cover [0, 2^15)
     /\ \A j \in 1..Len(R) : R[j][2] < R[j][3]
     /\ \A j \in 1..Len(R) - 1 : R[j][3] = R[j + 1][2]
     /\ Cardinality(vals) = Len(R)                                    \* one region per value
     /\ vals = vmin..vmax /\ vmin <= 0 /\ vmax >= 0
     /\ \A j \in 1..Len(e.enc) :
          LET x == e.enc[j] IN
          /\ x[2] = Max(vmin, Min(vmax, x[1]))                        \* clamped to the representable range, else unchanged
          /\ x[5] = x[2]                                              \* decode inverts encode
          /\ \E q \in 1..Len(R) : R[q] = <<x[2], x[3], x[3] + x[4]>>  \* the encoder's interval is the decoder's region
     /\ \A v \in vals : \E j \in 1..Len(e.enc) : e.enc[j][1] = v      \* every value was put through the encoder
LapModel0(e) ==
  LET m == LapModel(e.fs, e.dc) IN
  /\ LapDomain(e.fs, e.dc)
  /\ \A j \in 1..Len(e.runs) :
       LET r == e.runs[j] IN
       /\ -m.mn <= r[1] /\ r[1] <= m.mp
       /\ MInterval(m, r[1]) = <<r[2], r[3]>>
       /\ MDecode(m, r[2]) = r[1] /\ MDecode(m, r[3] - 1) = r[1]
  /\ Len(e.runs) = 1 + m.mn + m.mp
  /\ \A j \in 1..Len(e.enc) :
       LET x == e.enc[j] IN x[2] = MClamp(m, x[1]) /\ <<x[3], x[3] + x[4]>> = MEncode(m, x[1])

\* ---- ICDF table driven through the real coder: dp = symbol decoded at each point of the 2^ftb
\*      scale, rt = symbol decoded after encoding symbol s with a real encoder
IcdfRtProp(e) ==
  /\ ValidIcdf(e.t, e.ftb)
  /\ e.driven = 1
  /\ Len(e.dp) = Pow2(e.ftb)
  /\ \A q \in 0..Pow2(e.ftb) - 1 : e.dp[q + 1] = IcdfSymbolAt(e.t, q)
  /\ e.rt = [s \in 1..Len(e.t) |-> s - 1]

\* ---- exported tables
EprobProp(e) ==
  /\ Len(e.t) = 42
  /\ \A b \in 1..21 : LET fs0 == e.t[2 * b - 1] * 128  dc == e.t[2 * b] * 64 IN
                       LapDomain(fs0, dc) /\ LapStructureOK(fs0, dc)
UtabProp(e) == UTabShapeOK(e) /\ UTableMatchesRecurrence(e)
CacheProp(e) ==
  /\ CacheShapeOK(e) /\ CacheMonotone(e) /\ CacheBitsMatchV(e)
  /\ \A nk \in CacheReach(e) : InDims(nk[1], nk[2] + 1) /\ Fits32(Vw(nk[1], nk[2]))
  /\ HasRec("utab") /\ UTabShapeOK(RecOf("utab")) /\ \A nk \in CacheReach(e) : UTableCovers(RecOf("utab"), nk[1], nk[2])
CacheModel(e) == CacheMaximal(e) /\ CacheCapsMatch(e)
ReachProp(e) == HasRec("cache") /\ CacheShapeOK(RecOf("cache")) /\ SeqToSet(e.nk) = CacheReach(RecOf("cache"))   \* the harness drove exactly the reachable set
VnkProp(e) == InDims(e.N, e.K + 1) /\ <<e.Vh, e.Vl>> = Vw(e.N, e.K)              \* the V the code passes to ec_enc_uint/ec_dec_uint

\* ---- the p0/decay Laplace code through the real coder: rt = <<v, d1, d2, d3, tell_enc, tell_dec>> for the value v coded in
\*      front of the values 3 and -2 with the real encoder and read back with the real decoder; cnt = how many of the 2^15
\*      probability points decode to a zero / positive / negative value
LapP0Prop(e) ==
  /\ P0Domain(e.p0, e.dc)
  /\ Len(e.rt) >= 1
  /\ \A j \in 1..Len(e.rt) : LET x == e.rt[j] IN
        /\ x[2] = x[1]                          \* decode inverts encode
        /\ x[3] = 3 /\ x[4] = -2                \* and ends where the encoder ended: the next values are intact (prefix-free)
        /\ x[5] = x[6]                          \* both sides consumed the same number of bits
  /\ e.cnt[1] + e.cnt[2] + e.cnt[3] = 32768 /\ \A j \in 1..3 : e.cnt[j] >= 1
LapP0Model(e) ==
  LET t == P0SignIcdf(e.p0) IN e.cnt = <<32768 - t[1], t[1] - t[2], t[2]>>

Kinds == {"pvq", "pvqw", "sweep", "lap", "lapp0", "icdfrt", "icdf", "eprob", "utab", "cache", "reach", "vnk"}
Prop(e) ==
  CASE e.k = "pvq" -> PvqProp(e)
    [] e.k = "pvqw" -> PvqWideProp(e)
    [] e.k = "sweep" -> SweepProp(e)
    [] e.k = "lap" -> LapProp(e)
    [] e.k = "lapp0" -> LapP0Prop(e)
    [] e.k = "icdfrt" -> IcdfRtProp(e)
    [] e.k = "icdf" -> ValidIcdf(e.t, e.ftb)
    [] e.k = "eprob" -> EprobProp(e)
    [] e.k = "utab" -> UtabProp(e)
    [] e.k = "cache" -> CacheProp(e)
    [] e.k = "reach" -> ReachProp(e)
    [] e.k = "vnk" -> VnkProp(e)
    [] OTHER -> FALSE                    \* includes "pvqbig": a reachable (N,K) whose V does not fit 32 bits
Model(e) ==
  CASE e.k = "pvq" -> PvqModel(e)
    [] e.k = "pvqw" -> PvqWideModel(e)
    [] e.k = "sweep" -> SweepModel(e)
    [] e.k = "lap" -> LapModel0(e)
    [] e.k = "lapp0" -> LapP0Model(e)
    [] e.k = "cache" -> CacheModel(e)
    [] OTHER -> TRUE

PropOK == Prop(Tr[l])
CaseOK == Prop(Tr[l]) /\ Model(Tr[l])

Init == l \in 1..Len(Tr)
Next == UNCHANGED l
Spec == Init /\ [][Next]_l
=============================================================================
